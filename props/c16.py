"""C16 - drivers pair each command with its own answer, typed by the command.

The real asyncio drivers (Tridonic HID, hasseb HID, LUBA, SCI) run on the virtual-time loop against
gateway models (harness/gateways*.py); daliserver and the ATX hat (synchronous) run against scripted
fake sockets / serial ports.  Hypothesis draws the callers (1-3, single sends or sequences), their
commands (every response kind, 16/24 bit, device type, send-twice), the bus outcome of every command
(silent / value / framing error), start times, gateway latencies inside the protocol's windows and
stale answers left over from earlier traffic.  Oracle: send() returns None exactly for commands without
a response, otherwise an instance of the command's own response class wrapping exactly the scripted
outcome of that caller's own command.
"""
from hypothesis import strategies as st

from harness import hyp
from harness import scenario as sc
from harness.runner import Result, library_frame

ID = "C16"
LEVEL = "exploration"
RULE = ("Hypothesis scenarios (driver, callers, commands, outcomes, start times, latencies, stale reports), distinct by "
        "fingerprint; non-trivial = at least one query with a value or framing-error outcome AND (two or more callers, "
        "or a stale answer present, or a device-type / send-twice / 24-bit command)")
ASSUMPTIONS = [
    "gateway conversations as described in harness/gateways.py and harness/gateways_serial.py (vendor documents are "
    "not in the sandbox)",
    "a framing-error answer is reported as such by Tridonic, hasseb and daliserver; LUBA and SCI only log it, so "
    "'no answer' is the expected result there (as the property's quantifier states)",
    "stale answers are only generated where the protocol lets a driver tell them apart or flush them: before the send "
    "(bus traffic of other masters cannot overlap a transaction on a serial bus); a Tridonic stale report carries a "
    "sequence number that is not outstanding",
    "latencies are drawn inside the windows the drivers document (LUBA 25 ms after 'sent', SCI 30 ms after the status frame)",
    "hasseb and daliserver carry 16-bit frames only; ATX collisions ('X'/'Z' lines) are outside the property's outcome list",
]

ASYNC = ["tridonic", "hasseb", "luba", "sci"]
Q16 = ["qlevel", "qpresent", "qstatus", "qdtr0"]
N16 = ["dapc", "off", "reset"]
DT16 = ["dtcmd", "dttwice", "dtquery", "dtquery8"]
K24 = ["q24", "q24yn", "c24twice", "c24plain"]


def judge(case, obs):
    out = []
    drv = case["driver"]
    if not obs.get("connected"):
        return [("C16:%s:connect-failed" % drv, "driver did not connect to the gateway model")]
    for ci, (cspec, rec) in enumerate(zip(case["callers"], obs["callers"])):
        where = "%s caller %d (%s %s)" % (drv, ci, cspec["kind"], [c["k"] for c in cspec["cmds"]])
        if rec["status"] != "ok":
            e = rec.get("_exc")
            lib = library_frame(e.__traceback__) if e is not None else None
            out.append(("C16:%s:send-%s%s" % (drv, rec["status"], (":" + rec.get("exception", "")) if rec.get("exception") else ""),
                        "%s: %s %s (raised in %s)" % (where, rec["status"], rec.get("exception_repr", ""), lib)))
            continue
        if rec.get("marker_got"):
            out.append(("C16:%s:answer-handed-to-sleep-or-progress-item" % drv,
                        "%s: a sleep/progress item of the sequence was resumed with %r instead of nothing - an answer left "
                        "over from an earlier command" % (where, rec["marker_got"][:2])))
        cmds = [c for c in cspec["cmds"] if c["k"] not in ("sleep", "progress")]
        if len(rec["results"]) != len(cmds):
            out.append(("C16:%s:result-count" % drv, "%s: %d results for %d commands" % (where, len(rec["results"]), len(cmds))))
            continue
        for c, got in zip(cmds, rec["results"]):
            cmd = sc.build_cmd(c)
            oc = tuple(c.get("oc", ("silent",)))
            w2 = "%s command %s outcome %r" % (where, c, oc)
            if cmd.response is None:
                if got["type"] is not None:
                    out.append(("C16:%s:answer-for-non-query" % drv, "%s: send returned %r" % (w2, got)))
                continue
            exp_type = cmd.response.__module__ + "." + cmd.response.__qualname__
            if got["type"] is None:
                out.append(("C16:%s:none-for-query" % drv, "%s: send returned None for a command that expects an answer" % w2))
                continue
            if got["type"] != exp_type:
                out.append(("C16:%s:wrong-response-type:%s" % (drv, "silent" if oc[0] == "silent" else oc[0]),
                            "%s: returned %s, the command's response type is %s" % (w2, got["type"], exp_type)))
                continue
            if oc[0] == "silent":
                exp = ["none"]
            elif oc[0] == "value":
                exp = ["value", oc[1]]
            else:
                exp = ["error"] if drv in ("tridonic", "hasseb", "daliserver") else ["none"]
            if got["raw"][:len(exp)] != exp:
                kind = "stale-or-foreign-answer" if got["raw"][0] == "value" and (oc[0] != "value" or got["raw"][1] != oc[1]) else \
                    "answer-lost" if got["raw"][0] == "none" else "wrong-raw-value"
                out.append(("C16:%s:%s" % (drv, kind), "%s: raw value %r, expected %r" % (w2, got["raw"], exp)))
    if obs["locks_held"]:
        out.append(("C16:%s:lock-held" % drv, "after all sends completed: %r" % (obs["locks_held"],)))
    return out


def run_case(case):
    if "twin" in case:
        return run_twin(case)
    if case.get("atx_threads"):
        return run_atx_threads(case)
    if case.get("daliserver_threads"):
        return run_daliserver_threads(case)
    if case.get("unsupported"):
        return run_unsupported(case)
    if case["driver"] in ("daliserver", "atx"):
        return run_sync(case)
    obs = sc.run(case)
    return judge(case, obs)


# ------------------------------------------------------ sync drivers ----
class _DaliserverModel:
    """Stands in for the socket module inside dali.driver.daliserver: a daliserver that answers every
    4-byte request with one 4-byte reply, in order, per connection."""

    def __init__(self, outcomes):
        self.outcomes = outcomes      # (bits, value) -> outcome
        self.conns = []

    def create_connection(self, target):
        c = _DaliserverConn(self)
        self.conns.append(c)
        return c


class _DaliserverConn:
    def __init__(self, model):
        self.model = model
        self.replies = []
        self.requests = []
        self.closed = False

    def send(self, data):
        data = bytes(data)
        self.requests.append(data)
        if len(data) == 4 and data[0] == 2 and data[1] == 0:
            oc = self.model.outcomes.get((16, (data[2] << 8) | data[3]), ("silent",))
            if oc[0] == "value":
                self.replies.append(bytes([2, 1, oc[1], 0]))
            elif oc[0] == "reset":
                self.replies.append(ConnectionResetError(104, "connection reset by daliserver"))
            elif oc[0] == "error":
                self.replies.append(bytes([2, 255, 0, 0]))
            else:
                self.replies.append(bytes([2, 0, 0, 0]))
        else:
            self.replies.append(bytes([2, 254, 0, 0]))       # daliserver's "error" status for a malformed request
        return len(data)

    def recv(self, n):
        if not self.replies:
            return b""
        r = self.replies.pop(0)
        if isinstance(r, Exception):
            raise r
        return r

    def close(self):
        self.closed = True


def run_daliserver(case):
    import dali.driver.daliserver as D
    out = []
    outcomes = {}
    cmds = []
    for c in case["cmds"]:
        cmd = sc.build_cmd(c)
        cmds.append((c, cmd))
        outcomes[sc.frame_key(cmd)] = tuple(c.get("oc", ("silent",)))
    model = _DaliserverModel(outcomes)
    saved = D.socket
    D.socket = model
    try:
        persistent = bool(case.get("persistent"))
        results = []
        try:
            if persistent:
                with D.DaliServer(multiple_frames_per_connection=True) as d:
                    for c, cmd in cmds:
                        results.append(d.send(cmd))
            else:
                d = D.DaliServer()
                for c, cmd in cmds:
                    results.append(d.send(cmd))
        except Exception as e:  # noqa
            k_bad = len(results)
            if isinstance(e, OSError) and k_bad < len(cmds) and tuple(cmds[k_bad][0].get("oc", ()))[:1] == ("reset",):
                # the connection broke in the middle of this exchange: nothing can be said about the bus, the caller is
                # told (no answer is made up); the history ends here
                cmds = cmds[:k_bad]
            else:
                if library_frame(e.__traceback__) is None and not isinstance(e, OSError):
                    raise
                return [("C16:daliserver:send-raised:%s" % type(e).__name__, "daliserver history %r (%s): %r"
                         % ([c["k"] for c, _ in cmds], "persistent" if persistent else "per-command", e))]
        else:
            if any(tuple(c.get("oc", ()))[:1] == ("reset",) for c, _ in cmds):
                k_bad = next(i for i, (c, _) in enumerate(cmds) if tuple(c.get("oc", ()))[:1] == ("reset",))
                return [("C16:daliserver:answer-made-up-after-broken-connection", "daliserver history %r (%s): the connection was "
                         "reset while command %d waited for its reply; send() returned %r instead of raising"
                         % ([c["k"] for c, _ in cmds], "persistent" if persistent else "per-command", k_bad,
                            sc.describe_response(results[k_bad])))]
    finally:
        D.socket = saved
    mode = "persistent connection" if persistent else "connection per command"
    for (c, cmd), res in zip(cmds, results):
        oc = tuple(c.get("oc", ("silent",)))
        where = "daliserver (%s) %s outcome %r in history %r" % (mode, c, oc, [x["k"] for x, _ in cmds])
        got = sc.describe_response(res)
        if cmd.response is None:
            if got["type"] is not None:
                out.append(("C16:daliserver:answer-for-non-query", "%s: returned %r" % (where, got)))
            continue
        exp_type = cmd.response.__module__ + "." + cmd.response.__qualname__
        if got["type"] != exp_type:
            out.append(("C16:daliserver:wrong-response-type", "%s: returned %r, expected %s" % (where, got["type"], exp_type)))
            continue
        exp = ["none"] if oc[0] == "silent" else ["value", oc[1]] if oc[0] == "value" else ["error"]
        if got["raw"][:len(exp)] != exp:
            kind = "stale-or-foreign-answer" if got["raw"][0] in ("value", "none") and exp[0] != got["raw"][0] or \
                (got["raw"][0] == "value" and exp[0] == "value") else "wrong-raw-value"
            out.append(("C16:daliserver:%s" % kind, "%s: raw %r expected %r" % (where, got["raw"], exp)))
    left = sum(len(c.replies) for c in model.conns if not c.closed)
    if left and not out:
        out.append(("C16:daliserver:reply-left-unread", "daliserver (%s) history %r: %d repl%s left unread on the open connection"
                    % (mode, [x["k"] for x, _ in cmds], left, "y" if left == 1 else "ies")))
    for cn in model.conns:
        for rq in cn.requests:
            if len(rq) != 4:
                out.append(("C16:daliserver:malformed-request", "request %r" % (rq,)))
    return out


def run_sync(case):
    if case["driver"] == "daliserver":
        return run_daliserver(case)
    from props import c18
    from dali import command
    drv = case["driver"]
    r = c18.rig(drv)
    foreign = case.get("foreign")
    if drv == "atx" and foreign is not None:
        # one driver object through the whole history, nothing of it reset in between; before some answers the hat
        # also reports lines that are not for us (frames of other bus masters)
        r = c18.Atx()
    out = []
    for n_cmd, c in enumerate(case["cmds"]):
        cmd = sc.build_cmd(c)
        oc = tuple(c.get("oc", ("silent",)))
        where = "%s %s outcome %r" % (drv, c, oc)
        if drv == "daliserver":
            r.reply = bytes([2, 0, 0, 0]) if oc[0] == "silent" else bytes([2, 1, oc[1], 0]) if oc[0] == "value" else bytes([2, 255, 0, 0])
            res, writes = r.send(cmd)
        else:
            line = b"N\n" if oc[0] == "silent" else ("J%02X\n" % oc[1]).encode()

            def script(data, line=line):
                return [line, line] if data[:1] == b"t" else [line]
            if foreign is not None:
                extra = [("H%04X\n" % ((0xFE00 + 17 * n_cmd + k) & 0xFFFF)).encode() for k in range(foreign[n_cmd % len(foreign)])]
                # ... and the hat may take its time: read timeouts (empty reads) before the answer, five reads in all
                slow = case.get("empties") or [0]
                extra = [b""] * min(slow[n_cmd % len(slow)], 4 - len(extra)) + extra

                def script(data, line=line, extra=extra):      # noqa: F811
                    return extra + ([line, line] if data[:1] == b"t" else [line])
                r.writes = []
                r.script = script
                res, writes = c18._call(r.d.send, cmd), r.writes
            else:
                res, writes = r.send(cmd, script)
        if res[0] == "raised":
            out.append(("C16:%s:send-raised:%s" % (drv, type(res[1]).__name__), "%s: %r" % (where, res[1])))
            continue
        got = sc.describe_response(res[1])
        if cmd.response is None:
            if got["type"] is not None and drv == "daliserver":
                out.append(("C16:%s:answer-for-non-query" % drv, "%s: returned %r" % (where, got)))
            continue
        exp_type = cmd.response.__module__ + "." + cmd.response.__qualname__
        if got["type"] != exp_type:
            out.append(("C16:%s:wrong-response-type" % drv, "%s: returned %r, expected %s" % (where, got["type"], exp_type)))
            continue
        exp = ["none"] if oc[0] == "silent" else ["value", oc[1]] if oc[0] == "value" else ["error"]
        if got["raw"][:len(exp)] != exp:
            out.append(("C16:%s:wrong-raw-value" % drv, "%s: raw %r expected %r" % (where, got["raw"], exp)))
    return out


# ---------------------------------------------------------- strategies ----
@st.composite
def async_case(draw, driver=None):
    drv = driver or draw(st.sampled_from(ASYNC))
    n = draw(st.integers(1, 3))
    callers = []
    kinds16 = Q16 + Q16 + N16 + DT16
    pool = kinds16 + (K24 if drv != "hasseb" else [])
    for ci in range(n):
        serial_dt_needs_seq = drv in ("luba", "sci")
        kind = draw(st.sampled_from(["send", "send", "send", "seq", "txn"] + (["par", "par"] if drv in ("tridonic", "hasseb") else [])))
        ncmd = 1 if kind == "send" else draw(st.integers(2, 4)) if kind == "par" else draw(st.integers(1, 3))
        cmds = []
        for j in range(ncmd):
            k = draw(st.sampled_from(pool))
            c = {"k": k, "a": 3 + ci * 7 + j}
            cmd = sc.build_cmd(c)
            if cmd.response is not None:
                o = draw(st.sampled_from(["silent", "value", "value", "error"]))
                if o == "value":
                    c["oc"] = ["value", draw(st.one_of(st.sampled_from([0, 1, 254, 255]), st.integers(0, 255)))]
                elif o == "error":
                    c["oc"] = ["error", draw(st.sampled_from([0x55, 0x54, 0xAA, 0xAB, 0xFF, 0x00]))]
                else:
                    c["oc"] = ["silent"]
            cmds.append(c)
        if serial_dt_needs_seq and kind == "txn" and any(c["k"] in DT16 for c in cmds):
            kind = "seq"      # hand-made transactions with device-type commands on the serial drivers: as a sequence
        if kind == "seq" and draw(st.booleans()):
            for _ in range(draw(st.integers(1, 2))):
                item = {"k": "sleep", "d": draw(st.sampled_from([0.001, 0.02, 0.11]))} if draw(st.booleans()) else {"k": "progress"}
                cmds.insert(draw(st.integers(0, len(cmds))), item)
        callers.append({"kind": kind, "cmds": cmds, "t0": draw(st.sampled_from([0.0, 0.0, 0.005, 0.03, 0.06, 0.12]))})
        if kind != "par" and draw(st.integers(0, 2)) == 0:
            callers[-1]["vandal"] = True      # this caller edits the frames of the answers it is handed
    case = {"driver": drv, "callers": callers, "lat": draw(st.lists(st.floats(0, 0.999), max_size=24)),
            "tie": draw(st.booleans())}
    if drv == "tridonic":
        case["seq0"] = draw(st.sampled_from([1, 2, 128, 254, 255]))
    if drv in ("luba", "sci") and draw(st.booleans()):
        # several gateway frames handed over in one read
        case["coalesce"] = draw(st.lists(st.booleans(), min_size=1, max_size=12))
    # stale answers left over from earlier traffic
    k = draw(st.integers(0, 2))
    inj = []
    for i in range(k):
        v = draw(st.integers(0, 255))
        if drv == "tridonic":
            inj.append({"t": -0.01, "kind": "stale-answer", "value": v, "seq": (case["seq0"] - 2 - i) % 255 + 1 if (case["seq0"] - 2 - i) % 255 + 1 != case["seq0"] else 77})
        elif drv == "hasseb":
            inj.append({"t": -0.01, "kind": "stale-answer", "value": v})
        else:
            inj.append({"t": -0.01, "kind": "stale-answer", "value": v})
    if drv in ("luba", "sci") and draw(st.integers(0, 3)) == 0:
        # an answer nobody is waiting for any more (its query has long timed out) is reported while a command WITHOUT
        # answer is being exchanged and the next callers queue behind it: it belongs to none of them
        callers[0] = {"kind": "send", "cmds": [{"k": draw(st.sampled_from(["dapc", "off", "reset"])), "a": 1}], "t0": 0.0}
        if draw(st.integers(0, 2)) == 0:
            # ... or during the ENABLE DEVICE TYPE frame that precedes a device-type query of a sequence: that query
            # still gets its own answer
            callers[0] = {"kind": "seq", "cmds": [{"k": draw(st.sampled_from(["dtquery", "dtquery8"])), "a": 1,
                                                   "oc": ["value", draw(st.integers(0, 255))]}], "t0": 0.0}
        for c in callers[1:]:
            c["t0"] = max(c["t0"], 0.0005)
        inj.append({"t": draw(st.sampled_from([0.002, 0.005, 0.009])), "kind": "stale-answer", "value": draw(st.integers(0, 255))})
        case.pop("coalesce", None)      # (a read that is held back would move the report out of that exchange)
    if drv == "luba" and draw(st.integers(0, 2)) == 0:
        # the gateway throws in an ADD DALI FRAME error response (buffer full / bus busy) while exchanges are running
        for _ in range(draw(st.integers(1, 3))):
            inj.append({"t": draw(st.sampled_from([0.0005, 0.003, 0.009, 0.016, 0.031, 0.05, 0.064, 0.09, 0.125])),
                        "kind": "txerr", "code": draw(st.sampled_from([1, 2, 3, 255]))})
    if drv == "hasseb" and draw(st.booleans()):
        # the hasseb firmware keeps sending 'no data available' reports between the meaningful ones
        for _ in range(draw(st.integers(1, 6))):
            inj.append({"t": draw(st.sampled_from([0.0005, 0.004, 0.011, 0.026, 0.0271, 0.033, 0.045, 0.0621, 0.07, 0.1, 0.13, 0.2])),
                        "kind": "idle"})
    if inj:
        case["inject"] = inj
    return case


# ------------------------------------------------- the synchronous ATX driver used from two threads ----
def run_atx_threads(case):
    """case: {"atx_threads": true, "a": value, "b": value, "hold": seconds}
    Two threads call send() on one SyncDaliHatDriver.  The hat takes its time over the first exchange (the harness
    holds the answer back for `hold` seconds of real time while the second thread is queued).  Nothing of the second
    command may be written before the first exchange is over, and each thread gets its own answer.  The fake port
    never times out by itself: the verdict does not depend on the machine's speed."""
    import logging
    import threading
    import time
    from props import c18
    A = c18._env()["A"]            # dali.driver.atxled, imported with the usb/serial stubs in place
    from dali.gear import general as g
    lock = threading.Condition()
    state = {"writes": [], "lines": []}

    class Port:
        def write(self, data):
            with lock:
                state["writes"].append((threading.current_thread().name, bytes(data)))
                lock.notify_all()
            return len(data)

        def read_until(self, _sep=b"\n"):
            with lock:
                ok = lock.wait_for(lambda: state["lines"], timeout=20)
                return state["lines"].pop(0) if ok else b""

        def close(self):
            pass

    class FakeSerialModule:
        PARITY_NONE, STOPBITS_ONE, EIGHTBITS = "N", 1, 8

        @staticmethod
        def Serial(**kw):
            return Port()
    saved = A.serial
    A.serial = FakeSerialModule
    out = []
    try:
        d = A.SyncDaliHatDriver(port="/dev/verif-atx-threads", LOG=logging.getLogger("verif.atx.threads"))
        results = {}

        def worker(name, cmd):
            try:
                results[name] = ("ok", d.send(cmd))
            except Exception as e:  # noqa
                results[name] = ("raised", e)
        ta = threading.Thread(target=worker, name="A", args=("A", g.QueryActualLevel(1)), daemon=True)
        tb = threading.Thread(target=worker, name="B", args=("B", g.QueryActualLevel(2)), daemon=True)

        def wait_writes(n):
            with lock:
                return lock.wait_for(lambda: len(state["writes"]) >= n, timeout=20)

        def push(line):
            with lock:
                state["lines"].append(line)
                lock.notify_all()
        ta.start()
        if not wait_writes(1):
            return [("C16:atx:threads:first-command-not-written", "thread A's command was not written within 20 s")]
        tb.start()
        time.sleep(case.get("hold", 0.8))            # thread B is queued behind A's exchange all this time
        with lock:
            early = [w for w in state["writes"] if w[0] == "B"]
        if early:
            out.append(("C16:atx:threads:command-written-into-a-running-exchange",
                        "thread B's command %r was written while thread A's exchange was still waiting for the hat's answer "
                        "(held back %.1f s)" % (early[0][1], case.get("hold", 0.8))))
        push(("J%02X\n" % case["a"]).encode())
        ta.join(20)
        if not early and not wait_writes(2):
            out.append(("C16:atx:threads:second-command-not-written", "thread B's command was never written"))
        push(("J%02X\n" % case["b"]).encode())
        tb.join(20)
        for name, want in (("A", case["a"]), ("B", case["b"])):
            r = results.get(name)
            if r is None:
                out.append(("C16:atx:threads:caller-hangs", "thread %s did not return" % name))
            elif r[0] == "raised":
                out.append(("C16:atx:threads:send-raised:%s" % type(r[1]).__name__, "thread %s: %r" % (name, r[1])))
            else:
                got = sc.describe_response(r[1])
                if got.get("raw") != ["value", want]:
                    out.append(("C16:atx:threads:answer-of-the-other-thread-or-lost", "thread %s asked its lamp and the hat answered "
                                "%#x; send() returned %r" % (name, want, got)))
        # release anything still blocked
        for _ in range(12):
            push(b"N\n")
    finally:
        A.serial = saved
    return out


# ------------------------------------------------- a frame the gateway cannot carry ----
class _Stuck(Exception):
    pass


def run_unsupported(case):
    """case: {"unsupported": true, "exceptions": bool|None, "k": 24-bit command kind, "via": "send"|"txn"}
    The hasseb interface carries 16-bit frames only.  A 24-bit command handed to send() is refused with the library's
    UnsupportedFrameTypeError - at once, whatever the caller said about exceptions (there is nothing to wait for), and
    the lock is free afterwards.  A watchdog ends the case if the driver spins without yielding to the loop."""
    import signal
    from harness.gateways import HidSim
    from dali import exceptions as X
    sim = HidSim("hasseb", exceptions_on_send=True if case.get("exceptions") is None else bool(case["exceptions"]))
    out = []

    def alarm(*_a):
        raise _Stuck()
    old = signal.signal(signal.SIGALRM, alarm)
    signal.setitimer(signal.ITIMER_REAL, 6.0)
    where = "hasseb send(%s) of a 24-bit command with exceptions=%r" % (case["via"], case.get("exceptions"))
    try:
        sim.connect()
        sim.handshake()
        cmd = sc.build_cmd({"k": case["k"], "a": 5})
        kw = {} if case.get("exceptions") is None else {"exceptions": bool(case["exceptions"])}

        async def go():
            if case["via"] == "txn":
                async with sim.driver.transaction_lock:
                    return await sim.driver.send(cmd, in_transaction=True, **kw)
            return await sim.driver.send(cmd, **kw)
        t = sim.start(go())
        sim.drain(max_rounds=2000, max_virtual=20.0)
        if not t.done():
            out.append(("C16:hasseb:unsupported-frame-never-refused", "%s is still pending after 20 s of virtual time" % where))
        elif t.exception() is None:
            out.append(("C16:hasseb:unsupported-frame-accepted", "%s returned %r" % (where, sc.describe_response(t.result()))))
        elif isinstance(t.exception(), _Stuck):
            raise t.exception()
        elif not isinstance(t.exception(), X.UnsupportedFrameTypeError):
            out.append(("C16:hasseb:unsupported-frame-wrong-exception", "%s raised %r" % (where, t.exception())))
        if sim.driver.transaction_lock.locked() and t.done():
            out.append(("C16:hasseb:lock-held", "%s: the transaction lock is still held afterwards" % where))
    except _Stuck:
        out.append(("C16:hasseb:unsupported-frame-spins", "%s: the driver kept the event loop busy for 6 s of real time without "
                    "refusing the frame (no await inside its retry loop)" % where))
    finally:
        signal.setitimer(signal.ITIMER_REAL, 0)
        signal.signal(signal.SIGALRM, old)
        try:
            sim.close()
        except Exception:  # noqa
            pass
    return out


# ------------------------------------------------- the daliserver client used from two threads ----
def run_daliserver_threads(case):
    """case: {"daliserver_threads": true, "a": value, "b": value, "twice": bool}
    Two threads call send() on one DaliServer object in its default mode (one connection per command).  The fake
    daliserver answers each connection according to what was sent on THAT connection, and holds the first answer
    back until the second thread has had time to start its own exchange.  Each thread gets its own answer."""
    import threading
    import time
    import dali.driver.daliserver as DS
    from dali.gear import general as g
    lock = threading.Condition()
    state = {"conns": [], "go": False}
    want = {}

    class Conn:
        def __init__(self):
            self.sent = []
            self.users = set()

        def send(self, data):
            with lock:
                self.sent.append(bytes(data))
                self.users.add(threading.current_thread().name)
                lock.notify_all()
            return len(data)

        sendall = send

        def recv(self, n):
            with lock:
                lock.wait_for(lambda: state["go"], timeout=20)
                last = self.sent[-1] if self.sent else b""
            return bytes([2, 1, want.get(last[2:4], 0xEE), 0])

        def close(self):
            pass

    class FakeSocketModule:
        @staticmethod
        def create_connection(target, *a, **kw):
            c = Conn()
            with lock:
                state["conns"].append(c)
                lock.notify_all()
            return c
    cmd_a, cmd_b = g.QueryActualLevel(1), g.QueryActualLevel(2)
    want[bytes(cmd_a.frame.pack)] = case["a"]
    want[bytes(cmd_b.frame.pack)] = case["b"]
    saved = DS.socket
    DS.socket = FakeSocketModule
    out = []
    try:
        d = DS.DaliServer("verif-daliserver", 1)
        results = {}

        def worker(name, cmd):
            try:
                results[name] = ("ok", d.send(cmd))
            except Exception as e:  # noqa
                results[name] = ("raised", e)
        ta = threading.Thread(target=worker, name="A", args=("A", cmd_a), daemon=True)
        tb = threading.Thread(target=worker, name="B", args=("B", cmd_b), daemon=True)

        def sent_total():
            return sum(len(c.sent) for c in state["conns"])
        ta.start()
        with lock:
            if not lock.wait_for(lambda: sent_total() >= 1, timeout=20):
                return [("C16:daliserver:threads:first-command-not-written", "thread A's command was not written within 20 s")]
        tb.start()
        with lock:
            lock.wait_for(lambda: sent_total() >= 2, timeout=case.get("hold", 0.8))
            state["go"] = True
            lock.notify_all()
        ta.join(20)
        tb.join(20)
        for name, val in (("A", case["a"]), ("B", case["b"])):
            r = results.get(name)
            if r is None:
                out.append(("C16:daliserver:threads:caller-hangs", "thread %s did not return" % name))
            elif r[0] == "raised":
                out.append(("C16:daliserver:threads:send-raised:%s" % type(r[1]).__name__, "thread %s: %r" % (name, r[1])))
            else:
                got = sc.describe_response(r[1])
                if got.get("raw") != ["value", val]:
                    out.append(("C16:daliserver:threads:answer-of-the-other-thread-or-lost",
                                "thread %s asked its lamp, daliserver answered %#x on the connection that carried the question; "
                                "send() returned %r; connections %r" % (name, val, got,
                                                                       [(sorted(c.users), [x.hex() for x in c.sent]) for c in state["conns"]])))
    finally:
        DS.socket = saved
    return out


# ------------------------------------------------- two driver objects in one program ----
def run_twin(case):
    """case: {"twin": kind, "seq0": [a, b], "sides": {"A": [cmd specs], "B": [...]}, "t0": {"A": t, "B": t}, "lat": [[..], [..]]}
    Two driver objects of one class, each on its own gateway, used at the same time: every caller gets the
    answer of ITS gateway to ITS command."""
    import asyncio
    from harness.twin import TwinHidSim
    sim = TwinHidSim(case["twin"], seq0=tuple(case["seq0"]), latencies=tuple(case.get("lat", [[], []])))
    out = []
    try:
        if not sim.connect():
            return [("C16:%s:twin:connect-failed" % case["twin"], "two drivers did not both connect")]
        results = {"A": [], "B": []}
        cmds = {}
        for k in "AB":
            cmds[k] = []
            for c in case["sides"][k]:
                cmd = sc.build_cmd(c)
                cmds[k].append(cmd)
                if "oc" in c:
                    sim.sides[k].expect(cmd, tuple(c["oc"]))
                else:
                    sim.sides[k].expect(cmd, ("silent",))

        # each line has a bus_traffic listener of its own: it hears its own line only
        heard = {"A": [], "B": []}
        for k in "AB":
            sim.drivers[k].bus_traffic.register(
                lambda d, c, r, e, k=k: heard[k].append((type(c).__name__, None if r is None else sc.describe_response(r).get("raw"))))

        async def caller(k):
            await asyncio.sleep(case["t0"][k])
            for cmd in cmds[k]:
                r = await sim.drivers[k].send(cmd)
                results[k].append(sc.describe_response(r))
        tasks = {k: sim.start(caller(k)) for k in "AB"}
        sim.drain()
        for k in "AB":
            t = tasks[k]
            where = "%s driver %s of two (sequence numbers start at %r)" % (case["twin"], k, case["seq0"])
            if not t.done():
                out.append(("C16:%s:twin:caller-hangs" % case["twin"], "%s: still pending" % where))
                continue
            if t.exception() is not None:
                e = t.exception()
                out.append(("C16:%s:twin:send-raised:%s" % (case["twin"], type(e).__name__), "%s: %r (in %s)"
                            % (where, e, library_frame(e.__traceback__))))
                continue
            for c, cmd, got in zip(case["sides"][k], cmds[k], results[k]):
                oc = tuple(c.get("oc", ("silent",)))
                if cmd.response is None:
                    if got["type"] is not None:
                        out.append(("C16:%s:twin:answer-for-non-query" % case["twin"], "%s: %s returned %r" % (where, c, got)))
                    continue
                exp = ["none"] if oc[0] == "silent" else ["value", oc[1]]
                if got["type"] is None or got["raw"][:len(exp)] != exp:
                    out.append(("C16:%s:twin:answer-of-the-other-gateway-or-lost" % case["twin"],
                                "%s: command %s returned %r, its own gateway answered %r" % (where, c, got, exp)))
        if not out:
            sim.loop.settle()
            for k in "AB":
                mine = [h for h in heard[k] if h[0] != "EnableDeviceType"]
                want = [type(c).__name__ for c in cmds[k]]
                if [h[0] for h in mine] != want:
                    out.append(("C16:%s:twin:bus-traffic-of-the-other-line-or-lost" % case["twin"],
                                "%s driver %s of two: its bus_traffic listener heard %r, the line carried %r (the other line's "
                                "listener heard %r)" % (case["twin"], k, mine[:8], want, heard["B" if k == "A" else "A"][:8])))
                    break
        if sim.loop.exceptions:
            out.append(("C16:%s:twin:unhandled-exception" % case["twin"], repr(sim.loop.exceptions[:2])[:300]))
    finally:
        sim.close()
    return out


@st.composite
def twin_case(draw):
    kind = draw(st.sampled_from(["tridonic", "tridonic", "hasseb"]))
    s0 = draw(st.sampled_from([1, 77, 254, 255]))
    seq0 = [s0, s0 if draw(st.booleans()) else draw(st.sampled_from([1, 2, 78, 255]))]
    sides = {}
    for i, k in enumerate("AB"):
        cl = []
        for j in range(draw(st.integers(1, 3))):
            kk = draw(st.sampled_from(["qlevel", "qstatus", "dapc", "reset", "qpresent", "dtquery"]))
            c = {"k": kk, "a": 3 + j}            # the SAME commands on both lines: only the answers differ
            if sc.build_cmd(c).response is not None:
                c["oc"] = ["value", (0x11 if k == "A" else 0x22) + j] if draw(st.integers(0, 3)) else ["silent"]
            cl.append(c)
        sides[k] = cl
    return {"twin": kind, "seq0": seq0, "sides": sides,
            "t0": {"A": draw(st.sampled_from([0.0, 0.001, 0.01, 0.03])), "B": draw(st.sampled_from([0.0, 0.002, 0.02, 0.05]))},
            "lat": [draw(st.lists(st.floats(0, 0.999), max_size=8)), draw(st.lists(st.floats(0, 0.999), max_size=8))]}


@st.composite
def sync_case(draw):
    drv = draw(st.sampled_from(["daliserver", "atx"]))
    pool = Q16 + N16 + ["dtquery", "dtcmd", "reset", "dttwice"] if drv == "daliserver" else Q16 + ["dapc", "off"]
    cmds = []
    for j in range(draw(st.integers(1, 6 if drv == "daliserver" else 4))):
        k = draw(st.sampled_from(pool))
        c = {"k": k, "a": 3 + j}
        cmd = sc.build_cmd(c)
        if cmd.response is not None:
            o = draw(st.sampled_from(["silent", "value", "error", "value", "reset"] if drv == "daliserver" else ["silent", "value"]))
            c["oc"] = ["value", draw(st.integers(0, 255))] if o == "value" else [o] if o in ("silent", "reset") else ["error", 0]
        cmds.append(c)
    case = {"driver": drv, "cmds": cmds}
    if drv == "daliserver":
        case["persistent"] = draw(st.booleans())
    elif draw(st.booleans()):
        # a longer history on ONE hat driver object, with up to three foreign lines in front of an answer (the driver
        # reads at most five lines per command)
        more = []
        for j in range(draw(st.integers(4, 14))):
            c = {"k": draw(st.sampled_from(Q16)), "a": 10 + j, "oc": ["value", draw(st.integers(0, 255))] if draw(st.booleans()) else ["silent"]}
            more.append(c)
        case["cmds"] = cmds + more
        case["foreign"] = draw(st.lists(st.integers(0, 3), min_size=1, max_size=5))
        if draw(st.booleans()):
            case["empties"] = draw(st.lists(st.integers(0, 4), min_size=1, max_size=5))
    return case


def features(case):
    f = ["driver:" + case["driver"]]
    if any(case.get("coalesce", [])):
        f.append("serial-frames-coalesced-into-one-read")
    if "cmds" in case:
        if case.get("persistent"):
            f.append("daliserver:persistent-connection")
        if any(x["k"] in ("reset", "dttwice") for x in case["cmds"]):
            f.append("send-twice")
        return f
    if len(case["callers"]) > 1:
        f.append("multi-caller")
    if any(c.get("vandal") for c in case["callers"]):
        f.append("caller-edits-its-answers")
    if any(x["k"] in ("sleep", "progress") for c in case["callers"] for x in c["cmds"]):
        f.append("sequence-with-sleep-or-progress-items")
    if any(x["kind"] == "stale-answer" for x in case.get("inject", [])):
        f.append("stale-answer")
    if any(x["kind"] == "txerr" for x in case.get("inject", [])):
        f.append("luba-error-response-during-an-exchange")
    if any(x["kind"] == "idle" for x in case.get("inject", [])):
        f.append("hasseb-idle-reports")
    for c in case["callers"]:
        f.append("caller:" + c["kind"])
        for x in c["cmds"]:
            if x["k"] in DT16:
                f.append("device-type-command")
            if x["k"] in K24:
                f.append("24-bit")
            if x["k"] in ("reset", "dttwice", "c24twice"):
                f.append("send-twice")
            if "oc" in x:
                f.append("outcome:" + x["oc"][0])
    return sorted(set(f))


def nontrivial(case):
    f = features(case)
    if "cmds" in case:
        return any("oc" in c and c["oc"][0] != "silent" for c in case["cmds"])
    return ("outcome:value" in f or "outcome:error" in f) and any(
        x in f for x in ("multi-caller", "stale-answer", "device-type-command", "send-twice", "24-bit"))


def _shard(arg):
    kind, driver, seed, n = arg
    res = Result()
    if kind == "atx-threads":
        case = {"atx_threads": True, "a": 0x55 + seed % 7, "b": 0x66 + seed % 5, "hold": 0.8}
        res.count()
        res.nontrivial()
        res.label("atx:two-threads")
        for sig, msg in run_case(case):
            res.violation(sig, case, msg)
        res.sample(case, cls="atx two threads")
        return res
    if kind == "unsupported":
        for k in K24:
            for ex in (None, True, False):
                for via in ("send", "txn"):
                    case = {"unsupported": True, "k": k, "exceptions": ex, "via": via}
                    res.count()
                    res.nontrivial()
                    res.label("hasseb:24-bit-command-refused")
                    for sig, msg in run_case(case):
                        res.violation(sig, case, msg)
        res.sample(case, cls="frame the gateway cannot carry")
        return res
    if kind == "daliserver-threads":
        for k in range(4):
            case = {"daliserver_threads": True, "a": (0x31 + seed * 3 + k) % 255, "b": (0x92 + seed * 5 + 2 * k) % 255, "hold": 0.5}
            res.count()
            res.nontrivial()
            res.label("daliserver:two-threads")
            for sig, msg in run_case(case):
                res.violation(sig, case, msg)
        res.sample(case, cls="daliserver two threads")
        return res
    if kind == "twin":
        hyp.search(twin_case(), run_case, res, n, seed, ID, nontrivial=lambda c: True,
                   classify=lambda c: ["twin:" + c["twin"], "twin:same-sequence-numbers" if c["seq0"][0] == c["seq0"][1]
                                       else "twin:different-sequence-numbers"])
        return res
    strat = sync_case() if kind == "sync" else async_case(driver)
    hyp.search(strat, run_case, res, n, seed, ID, nontrivial=nontrivial, classify=features)
    return res


def run(ctx):
    n = 600 if ctx.quick else 40000
    shards = []
    for k in range(16):
        drv = ASYNC[k % 4]
        shards.append(("async", drv, ctx.seed * 1000 + k, n // 4))
    shards.append(("sync", None, ctx.seed * 1000 + 99, n))
    shards.append(("atx-threads", None, ctx.seed, 1))
    shards.append(("daliserver-threads", None, ctx.seed, 1))
    shards.append(("unsupported", None, ctx.seed, 1))
    shards.append(("twin", None, ctx.seed * 1000 + 98, max(60, n // 6)))
    shards.append(("twin", None, ctx.seed * 1000 + 97, max(60, n // 6)))
    ctx.pmap(_shard, shards)
