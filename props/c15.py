"""C15 - async drivers keep transactions atomic and device-type prefixes adjacent.

The real drivers (Tridonic HID, hasseb HID, LUBA, SCI) run on the virtual-time loop against the gateway
models; 2-4 concurrent callers (single sends, run_sequence() with sleep/progress items, manual
transactions) start at generated times, may be cancelled at generated times or raise a scripted
exception mid-sequence; gateway latencies are drawn inside the protocol windows.  The oracle is an
invariant over the ordered wire log seen by the gateway model plus the end state.
"""
from hypothesis import strategies as st

from harness import hyp
from harness import scenario as sc
from harness.runner import Result, library_frame

ID = "C15"
LEVEL = "exploration"
RULE = ("Hypothesis scenarios (driver, 2-4 callers with unique frames, start/cancel times, scripted exceptions, "
        "latencies), distinct by fingerprint; non-trivial = a second caller started while another caller's unit was in "
        "flight (measured from the trace: its start time lies between the first and last wire write of another unit) "
        "and at least one multi-command unit or device-type command is present")
ASSUMPTIONS = [
    "gateway conversations as in harness/gateways.py / gateways_serial.py; asyncio's FIFO ready queue (the only order "
    "CPython's loop produces); external events (caller start, cancel, report delivery, timer) are separated by a "
    "settle of the loop",
    "on the serial drivers in_transaction=True is documented as internal to run_sequence(), so manual transactions "
    "with device-type commands are not generated there; hasseb carries 16-bit frames only",
    "a cancelled caller may leave a prefix of its unit on the wire; whatever it put there must still be contiguous",
    "a caller that issues several in-transaction sends concurrently ('par') interleaves its own frames by its own choice: "
    "such callers carry no device-type commands and the order of their frames is not judged, only contiguity of the unit",
]

ASYNC = ["tridonic", "hasseb", "luba", "sci"]
PLAIN = ["dapc", "off", "reset", "qlevel", "qpresent", "qdtr0"]
DT = ["dtcmd", "dttwice", "dtquery", "dtquery8", "appdt", "appdtq"]
K24 = ["q24", "c24twice", "c24plain"]


def judge(case, obs):
    drv = case["driver"]
    out = []
    if not obs.get("connected"):
        return [("C15:%s:connect-failed" % drv, "driver did not connect")]
    # ---- completion and end state
    for ci, (cspec, rec) in enumerate(zip(case["callers"], obs["callers"])):
        where = "%s caller %d (%s %s)" % (drv, ci, cspec["kind"], [c["k"] for c in cspec["cmds"]])
        st_ = rec["status"]
        if st_ == "pending":
            out.append(("C15:%s:caller-never-completes" % drv, "%s is still pending after the drain (t=%.3f s)" % (where, obs["t_end"])))
        elif st_ == "raised":
            refused = cspec.get("before_connect") and drv in ("luba", "sci") and rec["exception"] == "OSError"
            if not refused and not (rec["exception"] == "ScriptedError" and (cspec.get("raise_at") is not None or rec.get("cleanup_raised"))):
                e = rec.get("_exc")
                out.append(("C15:%s:caller-raised:%s" % (drv, rec["exception"]),
                            "%s raised %s (in %s)" % (where, rec["exception_repr"], library_frame(e.__traceback__) if e else None)))
        elif st_ == "cancelled":
            if not rec.get("cancel_requested"):
                out.append(("C15:%s:spurious-cancel" % drv, "%s was cancelled by nobody" % where))
        if cspec["kind"] == "seq" and rec.get("gen_state") == "GEN_SUSPENDED" and st_ != "pending":
            out.append(("C15:%s:sequence-not-closed" % drv, "%s ended with %s but its generator was left suspended (never closed)" % (where, st_)))
        if cspec["kind"] == "seq" and st_ == "ok" and rec.get("returned") != "seq-done":
            out.append(("C15:%s:sequence-return-value" % drv, "%s returned %r" % (where, rec.get("returned"))))
    held = [h for h in obs["locks_held"] if not h.startswith("outstanding slots")]      # in-flight slots are C17's clause
    if held and not any(r["status"] == "pending" for r in obs["callers"]):
        out.append(("C15:%s:lock-not-released" % drv, "after every caller ended: %r" % (held,)))
    # ---- wire log
    sends = [w for w in obs["wire"] if w["kind"] == "send"]
    tags = obs["tags"]
    dt_of = {}
    order_of = {}
    for ci, cspec in enumerate(case["callers"]):
        k = 0
        for c in cspec["cmds"]:
            if c["k"] in ("sleep", "progress", "power"):
                continue
            cmd = sc.build_cmd(c)
            key = "%d:%d" % sc.frame_key(cmd)
            dt_of[key] = cmd.devicetype
            order_of[key] = (ci, k)
            k += 1
    seqtags = []          # (caller, index-in-caller) of each non-prefix frame on the wire, in order
    for i, w in enumerate(sends):
        key = "%d:%d" % (w["bits"], w["value"])
        if key in tags:
            need = dt_of[key]
            if need:
                prev = sends[i - 1] if i else None
                if prev is None or prev["bits"] != 16 or prev["value"] != (0xC100 | need):
                    how = "nothing" if prev is None else "%d-bit %#x" % (prev["bits"], prev["value"])
                    kind = case["callers"][tags[key]]["kind"]
                    out.append(("C15:%s:devicetype-prefix-missing:%s" % (drv, "single-send" if kind == "send" else kind),
                                "command %s (device type %d) of caller %d was preceded on the wire by %s, not by ENABLE DEVICE TYPE %d"
                                % (key, need, tags[key], how, need)))
            seqtags.append(order_of[key])
        elif w["bits"] == 16 and (w["value"] >> 8) == 0xC1:
            continue
        else:
            out.append(("C15:%s:unknown-frame-on-wire" % drv, "frame %s was written but belongs to no caller" % key))
    # contiguity: frames of one seq/txn caller must not be interleaved with another caller's frames
    seen_done = set()
    cur = None
    for (ci, k) in seqtags:
        if ci != cur:
            if ci in seen_done:
                kind = case["callers"][ci]["kind"]
                out.append(("C15:%s:unit-interleaved:%s" % (drv, kind),
                            "frames of caller %d (%s) are not contiguous on the wire: order %r" % (ci, kind, seqtags)))
                break
            if cur is not None:
                seen_done.add(cur)
            cur = ci
    # order inside a caller
    last = {}
    for (ci, k) in seqtags:
        if case["callers"][ci]["kind"] == "par":
            continue
        if ci in last and k != last[ci] + 1:
            out.append(("C15:%s:unit-order" % drv, "caller %d's commands appear in order %r" % (ci, [x for x in seqtags if x[0] == ci])))
            break
        if ci not in last and k != 0:
            out.append(("C15:%s:unit-order" % drv, "caller %d's first frame on the wire is its command %d" % (ci, k)))
            break
        last[ci] = k
    # a caller that completed normally must have all its frames on the wire
    for ci, (cspec, rec) in enumerate(zip(case["callers"], obs["callers"])):
        if rec["status"] == "ok":
            n = len([c for c in cspec["cmds"] if c["k"] not in ("sleep", "progress", "power")])
            if len([x for x in seqtags if x[0] == ci]) != n:
                out.append(("C15:%s:frames-missing-or-duplicated" % drv, "caller %d completed with %d commands but %d of its frames are on the wire"
                            % (ci, n, len([x for x in seqtags if x[0] == ci]))))
    if obs["loop_exceptions"]:
        out.append(("C15:%s:unhandled-exception-in-loop" % drv, "; ".join(obs["loop_exceptions"][:2])))
    return out


def overlap_measured(case, obs):
    """Did a caller start while another caller's unit was in flight?"""
    sends = [w for w in obs["wire"] if w["kind"] == "send"]
    tags = obs["tags"]
    span = {}
    t_base = None
    for w in sends:
        key = "%d:%d" % (w["bits"], w["value"])
        if key in tags:
            ci = tags[key]
            lo, hi = span.get(ci, (w["t"], w["t"]))
            span[ci] = (min(lo, w["t"]), max(hi, w["t"]))
    for ci, cspec in enumerate(case["callers"]):
        rec = obs["callers"][ci]
        if "t_start" not in rec:
            continue
        for cj, (lo, hi) in span.items():
            if cj != ci and lo - 1000.0 <= rec["t_start"] <= hi - 1000.0 + 0.05:
                return True
    return False


_LAST = {}


def run_case(case):
    obs = sc.run(case)
    _LAST["overlap"] = overlap_measured(case, obs)
    return judge(case, obs)


@st.composite
def case_strategy(draw, driver=None):
    drv = driver or draw(st.sampled_from(ASYNC))
    n = draw(st.integers(2, 4))
    callers = []
    pool = PLAIN + DT + (K24 if drv != "hasseb" else [])
    for ci in range(n):
        kind = draw(st.sampled_from(["send", "seq", "seq", "txn"] + (["par"] if drv in ("tridonic", "hasseb") else [])))
        # a sequence may consist of sleep/progress items only, or raise before its first command
        ncmd = 1 if kind == "send" else draw(st.integers(2, 4)) if kind == "par" else draw(st.integers(0, 5))
        cmds = []
        for j in range(ncmd):
            k = draw(st.sampled_from(pool))
            if kind == "txn" and drv in ("luba", "sci") and k in DT:
                k = "reset"
            if kind == "par" and k in DT:
                # sends issued concurrently by ONE caller inside its own transaction interleave with each other by the
                # caller's choice; the property speaks of frames of OTHER callers, so no device-type command here
                k = "qlevel"
            c = {"k": k, "a": 2 + ci * 9 + j}
            if sc.build_cmd(c).response is not None:
                o = draw(st.sampled_from(["silent", "value"]))
                c["oc"] = ["value", draw(st.integers(0, 255))] if o == "value" else ["silent"]
            cmds.append(c)
        if kind == "seq":
            # the sequence yields an ENABLE DEVICE TYPE of its own (for another device type) right before a command
            # that needs one: the driver's matching prefix still has to sit directly in front of that command
            for j in range(len(cmds) - 1, -1, -1):
                if cmds[j]["k"] in DT and draw(st.integers(0, 3)) == 0:
                    cmds.insert(j, {"k": "edt", "a": 40 + ci * 9 + j})
        if kind in ("seq", "txn"):
            for _ in range(draw(st.integers(0 if cmds else 1, 2))):
                item = draw(st.sampled_from([{"k": "sleep", "d": 0.001}, {"k": "sleep", "d": 0.03}, {"k": "sleep", "d": 0.25},
                                             {"k": "sleep", "d": 1.0}, {"k": "sleep", "d": 2.5}, {"k": "progress"}]))
                cmds.insert(draw(st.integers(0, len(cmds))), dict(item))
        if kind == "txn" and drv == "tridonic" and draw(st.integers(0, 2)) == 0:
            cmds.insert(draw(st.integers(0, len(cmds))), {"k": "power", "on": draw(st.booleans())})
        c = {"kind": kind, "cmds": cmds, "t0": draw(st.sampled_from([0.0, 0.0, 0.002, 0.02, 0.045, 0.08, 0.15, 0.3]))}
        r = draw(st.integers(0, 9))
        if kind in ("seq", "txn") and r == 0:
            c["raise_at"] = draw(st.integers(0, len(cmds)))
        elif r == 1:
            c["cancel"] = c["t0"] + draw(st.sampled_from([0.0, 0.001, 0.01, 0.02, 0.035, 0.05, 0.1, 0.26]))
            if kind == "seq" and draw(st.booleans()):
                c["bad_close"] = True
        if draw(st.integers(0, 11)) == 0:
            c["before_connect"] = True      # issued before connect(): HID drivers wait, serial drivers refuse (IOError)
        callers.append(c)
    case = {"driver": drv, "callers": callers, "lat": draw(st.lists(st.floats(0, 0.999), max_size=30)),
            "tie": draw(st.booleans())}
    if drv == "tridonic":
        case["seq0"] = draw(st.sampled_from([1, 100, 254, 255]))
    if drv == "luba" and draw(st.integers(0, 3)) == 0:
        # line noise while the line is idle, before anybody sends: one stray byte (the frame-start byte, or another)
        case["inject"] = [{"t": -0.004, "kind": "noise", "data": draw(st.sampled_from(["59", "59", "00", "ff", "5931"]))}]
    if drv == "sci" and draw(st.integers(0, 2)) == 0:
        # the interface reports an ERROR status (collision) instead of the confirmation for some command frames
        case["sci_tx_errors"] = draw(st.lists(st.booleans(), min_size=1, max_size=10))
    if drv in ("luba", "sci") and draw(st.booleans()):
        # several gateway frames handed over in one read
        case["coalesce"] = draw(st.lists(st.booleans(), min_size=1, max_size=12))
    return case


def features(case):
    f = ["driver:" + case["driver"]]
    if any(case.get("coalesce", [])):
        f.append("serial-frames-coalesced-into-one-read")
    for c in case["callers"]:
        f.append("caller:" + c["kind"])
        if "raise_at" in c:
            f.append("scripted-exception")
        if "cancel" in c:
            f.append("cancellation")
        if c.get("bad_close"):
            f.append("sequence-whose-cleanup-raises")
        if any(x["k"] == "power" for x in c["cmds"]):
            f.append("power-supply-switched-inside-a-transaction")
        if c.get("before_connect"):
            f.append("caller-started-before-connect")
        if any(x["k"] in DT for x in c["cmds"]):
            f.append("device-type-command" + (":single-send" if c["kind"] == "send" else ""))
        if any(x["k"] == "sleep" for x in c["cmds"]):
            f.append("sleep-in-unit")
    if _LAST.get("overlap"):
        f.append("started-while-other-unit-in-flight")
    return sorted(set(f))


def nontrivial(case):
    multi = any(len([x for x in c["cmds"] if x["k"] not in ("sleep", "progress", "power")]) > 1 for c in case["callers"])
    dt = any(x["k"] in DT for c in case["callers"] for x in c["cmds"])
    return bool(_LAST.get("overlap")) and (multi or dt)


def reducer(case):
    import copy
    for i in range(len(case["callers"]) - 1, -1, -1):
        if len(case["callers"]) > 1:
            c = copy.deepcopy(case)
            del c["callers"][i]
            yield c
    for i, cl in enumerate(case["callers"]):
        for j in range(len(cl["cmds"]) - 1, -1, -1):
            if len(cl["cmds"]) > 1:
                c = copy.deepcopy(case)
                del c["callers"][i]["cmds"][j]
                c["callers"][i].pop("raise_at", None)
                yield c
        for key in ("cancel", "raise_at"):
            if key in cl:
                c = copy.deepcopy(case)
                del c["callers"][i][key]
                yield c
    if case.get("lat"):
        c = copy.deepcopy(case)
        c["lat"] = []
        yield c


def _shard(arg):
    driver, seed, n = arg
    res = Result()
    hyp.search(case_strategy(driver), run_case, res, n, seed, ID, nontrivial=nontrivial, classify=features,
               shrink=False, reducer=reducer)
    return res


def run(ctx):
    n = 8000 if ctx.quick else 400000
    ctx.pmap(_shard, [(ASYNC[k % 4], ctx.seed * 1000 + k, n // 16) for k in range(16)])
