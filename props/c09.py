"""C09 - memory-bank reads return the declared bytes and leave the unit untouched.

The library's MemoryValue.read() and MemoryBank.read_all() generator sequences are run, through the
fake bus, against frame-level specification models of a bus unit's memory access (IEC 62386-102 /
-103 clause 9.10): harness/model_gear.py for 16-bit control gear, harness/model_devmem.py for 24-bit
control devices.  The memory map (which locations a value occupies, how its bytes are interpreted,
which banks latch) comes from harness/ref_memory.py, never from the library.

On the bus with the unit under test: a unit of the same kind at the next short address and a unit of
the other kind at the SAME short address, both holding the same bank with other contents - so a
command of the wrong width or to the wrong address shows up as wrong data or as a collision.  The
unit under test also holds a decoy bank (bank number + 1) and starts with DTR1 pointing at it.

Besides the ~97 shipped value classes the check declares a few values of its own on a bank object of
its own, through the library's public declaration mechanism (MemoryBank / MemoryLocation /
NumericValue / StringValue): non-contiguous, descending and scattered locations, which the API allows
("most efficient if contiguous") and the shipped map does not exercise.

A generated family of a program's own declarations (harness.ref_memory.family(seed): 16 banks with / without lock and
latch byte, ~190 values; base classes NumericValue / FixedScaleNumericValue (signed too) / TemperatureValue / StringValue /
BinaryValue / VersionNumberValue / energy.ScaledNumericValue; derived from the abstract base, from a shipped value (CRI,
InputPowerNominal, ...) or from another value of the family with another width / signedness / limits / MASK-TMASK support;
1..12 locations ascending, descending, with gaps, scattered, up to 0xFE; every access type, no type given, mixed types;
default / reset given or not; MemoryRange / tuple / list / single MemoryLocation) goes through the same single-value and
whole-bank judges: bank objects "F<seed>B<nn>", keys "F<seed>B<nn>.V<seed>_<nnn>".  What each value means is fixed by the
reference (family_row), never by the library.

Sequences in flight at the same time: two or three read sequences (MemoryBank.read_all of one bank object, with and
without latch, and single-value reads of that bank), each on its own bus with its own units, are advanced alternately
command by command (harness.bus.run_interleaved) - what two drivers in one process do.  Each must pass the
single-sequence oracle on its own unit and return what it returns when run alone.

Boolean options as callers spell them: use_latch (and, in C10, the options of the write path) is also handed over as
1 / 0 / 2 / "yes" / "" / [0] / [] / an object that only defines __bool__ ... and must act as bool(object) says.

The query helpers MemoryBank.is_locked / last_address and MemoryValue.is_addressable / is_locked are readings of the
header bytes; run to their end they are judged against the unit's memory (see ASSUMPTIONS).

Operations one after the other on ONE bank object: histories of the public operations of a MemoryBank and its values
(latch(), unlatch(), read_all with and without latch, single-value reads, is_locked, last_address, is_addressable),
run to their end, abandoned half-way (the driver stops asking, or raises into the sequence) or aborted by a garbled
answer, on one to three units (each with a bus of its own), with another controller using the DTRs or the lock byte in
between.  Every complete read of such a history is judged by the single-sequence oracle against the unit as it is at
that moment, and compared with the same read made by a bank object WITHOUT a past (a new MemoryBank declared from the
same public declarations) against a copy of the unit: same commands on the bus, same result, same memory afterwards.

Multi-byte values: besides random images, every value of two or more bytes (strings have their own text images) holds each
of the bytes 0x00 0x01 0x7f 0x80 0xfe 0xff at EVERY one of its byte positions, with the other positions all zero, all
0xff, or unremarkable bytes (harness.ref_memory.edge_raws; images ["edge", k]) - in single-value reads and in whole-bank
reads: a rule that belongs to one byte of a value (0xFF = "not implemented" in a one-byte version number, a MASK byte)
must not fire for another byte position.

This module also holds what C10 (memory writes) shares: discovery, unit construction, the
query-indexed fault bus.
"""
import copy
import hashlib
import numbers

from hypothesis import strategies as st

from harness import hyp
from harness import ref_memory as RM
from harness.bus import Bus, NonTermination, run_interleaved
from harness.model_devmem import Bank, DevMemModel, MemGear, make_drift
from harness.runner import Result, library_frame

ID = "C09"
LEVEL = "exploration"
RULE = ("single value: (value class, addressing kind, image, last accessible location, hole set, initial lock byte, "
        "fault) tuples - complete over value x last location 0..254 and value x single hole for a static image, "
        "fault at every read index, multi-byte values x each of the bytes 0x00 0x01 0x7f 0x80 0xfe 0xff at every byte position "
        "between zeros / 0xff / unremarkable bytes (value read and whole-bank read), string values x each of the bytes 0x00 0x01 0x1f 0x20 0x7e 0x7f 0x80 0xff alone at every "
        "position of otherwise plain text (NUL also with bytes >= 0x80 behind it) and as the whole field, plus "
        "Hypothesis-generated tuples; whole bank: (bank object, addressing, image, last "
        "location 0..254, hole set, use_latch, drift, fault) tuples likewise; distinct by construction (enumeration) or by "
        "fingerprint (Hypothesis); non-trivial = at least one declared value is truncated by the last location or has a "
        "hole, or a fault is injected, or (whole bank) the latch is set while live memory drifts, or a multi-byte value holds a "
        "byte-position boundary pattern; several sequences in "
        "flight: (2 or 3 single-value / whole-bank tuples as above - mostly of ONE bank object, units with different "
        "images, last locations, addressing - and the order in which the sequences advance command by command: "
        "round-robin, blocks, head starts, nested, late start, Hypothesis-drawn); non-trivial = the sequences really "
        "overlap in time; operations one after the other: (bank object, 1-3 units as above, a list of 1-7 operations of "
        "that bank object - latch / unlatch / whole-bank read / single-value read / is_locked / last_address / "
        "is_addressable, each complete, abandoned after n commands or aborted by a fault, or another controller changing "
        "DTRs / lock byte - ending in a complete read on the same or another unit): a list of ~40 prefixes x 4 final reads "
        "per bank object, plus Hypothesis-drawn histories; non-trivial = the judged read has at least one earlier "
        "operation of the same bank object behind it, or a query helper (is_locked / last_address / is_addressable / "
        "is_locked of a value: value x lock byte x last locations around the value x header holes) is judged; the "
        "use_latch option of any whole-bank read may be handed over as a truthy / falsy object that is not a bool "
        "(11 styles); whole banks whose locations from 3 up to the last accessible one are all (or all but one) "
        "unimplemented; declared by a program: every value of the generated family of the run's seed (declaration features: "
        "base class / derivation, signedness, flags, limits, width, location order, access types incl. none and mixed, bank "
        "flags) x last accessible location at and below each of its locations, 0, 1, 2, 0xfe x single holes x images x "
        "byte-position boundary patterns / text images x fault at every read index; each family bank x last location at and "
        "below every declared location x latch x single holes x faults; plus Hypothesis tuples over the family")
ASSUMPTIONS = [
    "a program's own declarations (the generated family, harness/ref_memory.py family()) use only the public declaration "
    "mechanism the way dali/memory/*.py do; a class attribute the declaration does not set is the parent's, the bytes are "
    "taken from the locations in the declared order, a location declared without type_ is readable like any other; only "
    "combinations whose meaning the statement / the library's documentation settles are generated (no signed temperature / "
    "version / scaled values, one-byte booleans, one- or two-byte versions, no value at locations 0x00..0x02); the shipped "
    "value a family value is derived from is decoded once before the derived class is declared (order parent-first) or only "
    "after the derived class was used (child-first, as far as this process had not used it before)",
    "bus units follow harness/model_gear.py / model_devmem.py: READ MEMORY LOCATION answers NO above the last accessible "
    "location and at unimplemented locations, advances DTR0 either way, and clears writeEnableState (IEC 62386-102 "
    "9.10; dali/tests/fakes.py models the same)",
    "which locations a value occupies and how bytes are interpreted: harness/ref_memory.py (hand transcription, see C11)",
    "a silenced read is indistinguishable from an unimplemented location: it is treated as one",
    "a garbled read of a location that is also unimplemented, or (whole bank) that belongs to no value that would "
    "otherwise be reported, may raise ResponseError or not",
    "whole bank, location 0x00 unreadable (bank not accessible): MemoryLocationNotImplemented or an empty result are "
    "both accepted",
    "whole bank: header values (LastAddress, LockByte) may be present or absent in the result",
    "the state of the latch after a read that RAISED is not checked (the statement speaks of 'after any read'; an "
    "aborted read_all is not clearly one)",
    "drift (live memory changing after every read) is only applied where a latch is set, i.e. where the statement "
    "defines which instant the values belong to; without a latch the image is static",
    "when the lock byte (0x02) is beyond the last accessible location or unimplemented no latch can be set and none "
    "is demanded",
    "values declared by the check itself (bank object 'SYN', number 249) use only the public declaration mechanism",
    "read sequences in flight at the same time on separate buses (one driver per DALI line in one process, stepped "
    "alternately) are independent: each must satisfy the statement on its own unit and return exactly what it returns "
    "when it runs alone against that unit (harness.bus.run_interleaved)",
    "operations run one after the other are independent: a read must satisfy the statement on the unit as it is when the "
    "read starts, whatever the bank object was used for before (on this or another unit, completed or abandoned), and do "
    "exactly what a MemoryBank newly declared from the same declarations does against the same unit",
    "units do not drift outside a judged latched read; a unit that an aborted read left latched keeps the latched values "
    "as its live values (so that 'the bytes stored' is well defined for the next read)",
    "latch() and unlatch() themselves are not judged (the statement is about reads); whatever they raise is ignored",
    "the query helpers are readings of the header bytes 'interpreted by that value's rules' and are judged when they run "
    "to their end with no fault on the bus, against the unit model's memory: MemoryBank.last_address() == the byte at "
    "location 0x00; MemoryBank.is_locked() == (lock byte != 0x55) for bank objects declared with a lock and False for "
    "the others (also for latch-only banks 202-204, whose byte at 0x02 is a latch byte only); "
    "MemoryValue.is_addressable() == (the value's highest location <= the byte at 0x00), False or "
    "MemoryLocationNotImplemented when location 0x00 does not answer; MemoryValue.is_locked() == (first declared "
    "location is lockable and the bank is locked); nothing is demanded when the byte they need is not implemented; "
    "they must leave all memory unchanged",
    "boolean options (use_latch here; allow_short_write / force_unlock / ignore_feedback in C10) mean bool(object): a "
    "caller may hand over 1 / 0 / 2 / -1 / 0.5 / 'yes' / '' / [0] / [] / (0,) / () / bytes / dicts / objects that only "
    "define __bool__ or __len__ (numpy-style) - the unchanged library only ever tests their truth value - and every "
    "oracle applies with the option's truth value; None is not used (no option defaults to None)",
]

# The read_all latch defect found at the pinned commit is repaired in /repo (KNOWN_FINDINGS.txt "fixed:" line), so
# nothing is excluded from the searches any more; if it returns it is reported by the shards and by its regression replay.
KNOWN_DEFECT_SIGS = ()
LAST_OUTCOME = [None]      # outcome class of the most recent case (histogram only)
HEADER = ("LastAddress", "LockByte")
NLOC = 255


# ------------------------------------------------- boolean options, as callers spell them ----
class _Truth:
    """What numpy.bool_ and the like are to the library: an object with a truth value that is neither identical nor
    equal to True / False / 1 / 0."""

    def __init__(self, truth):
        self.truth = truth

    def __bool__(self):
        return self.truth

    def __repr__(self):
        return "<object whose bool() is %s>" % self.truth


class _Sized:
    """A container-like object: its truth value is whether it is non-empty."""

    def __init__(self, n):
        self.n = n

    def __len__(self):
        return self.n

    def __repr__(self):
        return "<container with %d item(s)>" % self.n


# style -> (a falsy object, a truthy object); made anew for every call
SPELL = {
    "int": lambda: (0, 1), "two": lambda: (0, 2), "list": lambda: ([], [0]), "str": lambda: ("", "yes"),
    "obj": lambda: (_Truth(False), _Truth(True)), "neg": lambda: (0, -1), "float": lambda: (0.0, 0.5),
    "tuple": lambda: ((), (0,)), "bytes": lambda: (b"", b"\x00"), "dict": lambda: ({}, {0: 0}),
    "sized": lambda: (_Sized(0), _Sized(2)),
}
SPELL_CORE = ("int", "two", "list")
SPELL_MORE = ("str", "obj", "neg", "float", "tuple", "bytes", "dict", "sized")
SPELL_STYLES = SPELL_CORE + SPELL_MORE


def spelled(style, truth):
    """The object by which a caller hands over a boolean option that means `truth`: the bool itself (style None) or
    the truthy / falsy object of the named style.  The option must then act exactly as bool(object) == truth says."""
    if style is None:
        return bool(truth)
    return SPELL[style]()[1 if truth else 0]


def spell_styles(quick, k):
    """The styles used at one place of an enumeration: all of them, or (quick) the core ones and two of the others."""
    if not quick:
        return SPELL_STYLES
    m = len(SPELL_MORE)
    return SPELL_CORE + (SPELL_MORE[k % m], SPELL_MORE[(k + 3) % m])

# ------------------------------------------------------------------ synthetic map ----
SYN_BANK = dict(bank=249, has_lock=True, has_latch=True, last=0xFE)
# name, locations (in value order), memory type per location, kind
SYN_ROWS = [
    ("SynStride2",   [0x03, 0x05, 0x07],       "NVM_RW_L", "uint"),
    ("SynDescending", [0x0A, 0x09, 0x08],      "NVM_RW",   "uint"),
    ("SynScattered", [0x20, 0x11, 0x12, 0xFE], "RAM_RW",   "uint"),
    ("SynPairRO",    [0x30, 0x31],             "ROM",      "uint"),
    ("SynMixedRO",   [0x40, 0x41],             ("NVM_RW", "NVM_RO"), "uint"),
    ("SynGap",       [0x50, 0x52, 0x53],       "NVM_RW_L", "uint"),
    ("SynStr",       list(range(0x60, 0x68)),  "NVM_RW_L", "string"),
    ("SynTail",      [0xFC, 0xFD],             "RAM_RW",   "uint"),
]

_CACHE = {}


def all_rows():
    """key -> row (ref_memory rows + synthetic rows), each with 'locs' (locations in value order)."""
    if "rows" in _CACHE:
        return _CACHE["rows"]
    rows = {}
    for r in RM.ROWS:
        r = dict(r)
        r["locs"] = list(range(r["first"], r["last"] + 1))
        rows[r["key"]] = r
    for name, locs, mt, kind in SYN_ROWS:
        if isinstance(mt, str):
            mt = (mt,) * len(locs)
        rows["SYN." + name] = dict(
            key="SYN." + name, cls=name, module=__name__, bankobj="SYN", bank=SYN_BANK["bank"], first=min(locs),
            last=max(locs), width=len(locs), locs=list(locs), memtype=tuple(mt), kind=kind, signed=False, mask=False,
            tmask=False, min=None, max=None, exp10=None, trust="independent", pinned_fields=())
    for b in ("SYN",):
        for cls, loc in (("LastAddress", 0), ("LockByte", 2)):
            rows["%s.%s" % (b, cls)] = dict(
                key="%s.%s" % (b, cls), cls=cls, module="dali.memory.location", bankobj=b, bank=SYN_BANK["bank"],
                first=loc, last=loc, width=1, locs=[loc], memtype=("ROM" if loc == 0 else "RAM_RW",), kind="uint",
                signed=False, mask=False, tmask=False, min=None, max=None, exp10=None, trust="independent",
                pinned_fields=())
    _CACHE["rows"] = rows
    return rows


def bank_names():
    return sorted(RM.BANKS) + ["SYN"]


def bankspec(bankobj):
    """What the unit models need to know about a bank - from the reference tables only."""
    key = ("spec", bankobj)
    if key in _CACHE:
        return _CACHE[key]
    b = SYN_BANK if bankobj == "SYN" else RM.BANKS[bankobj] if bankobj in RM.BANKS else _family_bank(bankobj)
    rows = sorted((r for r in all_rows().values() if r["bankobj"] == bankobj), key=lambda r: r["first"])
    writable, lockable = set(), set()
    for r in rows:
        for loc, t in zip(r["locs"], r["memtype"]):
            if t == "NVM_RW_L":
                lockable.add(loc)
            elif t in RM.WRITABLE_TYPES:
                writable.add(loc)
    has_lock_byte = bool(b["has_lock"] or b["has_latch"])
    if has_lock_byte:
        writable.discard(2)
    spec = dict(bankobj=bankobj, bank=b["bank"], has_latch=bool(b["has_latch"]), has_lock=bool(b["has_lock"]),
                has_lock_byte=has_lock_byte, last=b["last"], rows=rows, writable=writable, lockable=lockable,
                values=[r for r in rows if not (r["cls"] in HEADER and r["module"] == "dali.memory.location")])
    _CACHE[key] = spec
    return spec


# ----------------------------------------------------------------------- library ----
def lib():
    """Discover the library's bank objects and value classes at run time; declare the synthetic ones."""
    if "lib" in _CACHE:
        return _CACHE["lib"]
    import importlib
    import pkgutil
    import dali.memory
    from dali import address, exceptions
    from dali.memory import location
    banks, seen = {}, []
    for m in pkgutil.iter_modules(dali.memory.__path__):
        mod = importlib.import_module("dali.memory." + m.name)
        for attr, v in sorted(vars(mod).items()):
            if isinstance(v, location.MemoryBank):
                seen.append(("%s.%s" % (mod.__name__, attr), v))
                if attr in RM.BANKS and RM.BANKS[attr]["module"] == mod.__name__:
                    banks[attr] = v
    unmatched_banks = sorted(n for n, v in seen if not any(v is x for x in banks.values()))
    # synthetic bank, declared through the public mechanism
    syn = location.MemoryBank(SYN_BANK["bank"], SYN_BANK["last"], has_lock=True, has_latch=True)
    for name, locs, mt, kind in SYN_ROWS:
        if isinstance(mt, str):
            mt = (mt,) * len(locs)
        base = location.StringValue if kind == "string" else location.NumericValue
        type(name, (base,), dict(bank=syn, locations=tuple(
            location.MemoryLocation(a, type_=getattr(location.MemoryType, t)) for a, t in zip(locs, mt))))
    banks["SYN"] = syn
    rows = all_rows()
    classes, cls_key, unmatched = {}, {}, []
    for bk in sorted(banks):
        for cls in banks[bk].values:
            key = "%s.%s" % (bk, cls.__name__)
            if key in rows and key not in classes:
                classes[key] = cls
                cls_key[cls] = key
            else:
                unmatched.append(key)
    L = dict(location=location, address=address, exc=exceptions, banks=banks, classes=classes, cls_key=cls_key,
             unmatched_classes=unmatched, unmatched_banks=unmatched_banks,
             rows_without_class=sorted(k for k in rows if k not in classes))
    _CACHE["lib"] = L
    return L


# ------------------------------------------------- a program's own declarations ----
def _family_bank(bankobj):
    seed = RM.family_of_key(bankobj)
    if seed is None:
        raise KeyError(bankobj)
    return RM.family(seed)["banks"][bankobj]


def _touch(cls, row):
    """Decode one plain byte string with cls (what a program does when it uses a class for the first time)."""
    try:
        raw = [0x00] * (row["width"] - 1) + [0x01]
        img = [0] * NLOC
        for a, b in zip(row["locs"] if "locs" in row else range(row["first"], row["last"] + 1), raw):
            img[a] = b
        cls.from_list(img)
        cls.check_raw(bytes(raw))
    except Exception:  # noqa: judged where the class is read, not here
        pass


def load_family(seed):
    """Declare the generated family of `seed` (once per process) and enter it into all_rows() / lib().
    -> {"banks": [bank object names], "keys": [value keys], "errors": {key: text}}"""
    ck = ("family", int(seed))
    if ck in _CACHE:
        return _CACHE[ck]
    L = lib()
    rows = all_rows()
    fam = RM.family(seed)
    location = L["location"]
    errors = {}
    abstract = {}
    for name in RM.ABSTRACT_BASES:
        try:
            if name == "ScaledNumericValue":
                from dali.memory import energy
                abstract[name] = energy.ScaledNumericValue
            else:
                abstract[name] = getattr(location, name)
        except Exception as e:  # noqa
            errors["base:" + name] = repr(e)
    banks = {}
    for bk, b in fam["banks"].items():
        try:
            banks[bk] = RM.declare_bank(b, location)
        except Exception as e:  # noqa
            errors[bk] = "MemoryBank(%d, %#x, has_lock=%s, has_latch=%s) raised %r" % (b["bank"], b["last"], b["has_lock"], b["has_latch"], e)
            continue
        for cls, loc in (("LastAddress", 0), ("LockByte", 2)):
            if loc == 2 and not (b["has_lock"] or b["has_latch"]):
                continue
            rows["%s.%s" % (bk, cls)] = dict(
                key="%s.%s" % (bk, cls), cls=cls, module="dali.memory.location", bankobj=bk, bank=b["bank"], first=loc, last=loc,
                width=1, locs=[loc], memtype=("ROM" if loc == 0 else "RAM_RW",), kind="uint", signed=False, mask=False,
                tmask=False, min=None, max=None, exp10=None, trust="independent", pinned_fields=())
    keys = []
    for d in fam["decls"]:
        key = "%s.%s" % (d["bankobj"], d["name"])
        rows[key] = fam["rows"][key]
        keys.append(key)
        if d["bankobj"] not in banks:
            continue
        kind, ref = d["parent"]
        parent = abstract.get(ref) if kind == "abstract" else L["classes"].get(ref)
        if parent is None:
            errors.setdefault(key, "the parent %s does not exist" % ref)
            continue
        try:
            if kind != "abstract" and d["order"] == "parent-first":
                _touch(parent, rows[ref])
            cls = RM.declare_value(d, banks[d["bankobj"]], parent, location)
        except Exception as e:  # noqa: reported by the family shard
            errors[key] = "declaring %s(%s) at %s raised %r" % (d["name"], ref, ["%#04x %s" % lt for lt in zip(d["locs"], d["types"])], e)
            continue
        L["classes"][key] = cls
        L["cls_key"][cls] = key
        if kind == "abstract" or d["order"] == "child-first":
            _touch(cls, rows[key])
    for bk, bank in banks.items():
        L["banks"][bk] = bank
        for name in ("LastAddress", "LockByte"):
            cls = getattr(bank, name, None)
            if cls is not None and "%s.%s" % (bk, name) in rows:
                L["classes"]["%s.%s" % (bk, name)] = cls
                L["cls_key"][cls] = "%s.%s" % (bk, name)
    for k in [k for k in _CACHE if isinstance(k, tuple) and k[0] == "spec" and k[1] in fam["banks"]]:
        del _CACHE[k]
    _CACHE[ck] = dict(banks=sorted(banks), keys=keys, errors=errors, fam=fam)
    return _CACHE[ck]


def ensure_family(case):
    """Declare the families that the keys / bank objects named in a case belong to (replays name them only)."""
    if not isinstance(case, dict):
        return
    for f in ("key", "bank"):
        v = case.get(f)
        if isinstance(v, str):
            seed = RM.family_of_key(v)
            if seed is not None:
                load_family(seed)
    for f in ("jobs", "ops"):
        for sub in case.get(f) or ():
            ensure_family(sub)


def signame(row):
    """Name of a value class in a violation signature: the class, or - for the generated family, whose class names change
    with the seed - what kind of declaration it is."""
    if RM.family_of_key(row["key"]) is None:
        return row["cls"]
    return "declared-by-program:%s%s" % (row["kind"], "-signed" if row["signed"] else "")


def make_addr(kind, short):
    A = lib()["address"]
    if kind == "gear":
        return A.GearShort(short)
    if kind == "device":
        return A.DeviceShort(short)
    return short


def tag(v):
    if isinstance(v, lib()["location"].FlagValue):
        return ("flag", {"Invalid": RM.INVALID, "MASK": RM.MASK, "TMASK": RM.TMASK}.get(v.name, v.name))
    return ("value", v)


def same(got, ref):
    if got[0] != ref[0]:
        return False
    if got[0] == "flag":
        return got[1] == ref[1]
    x, y = got[1], ref[1]
    if isinstance(y, bool):
        return type(x) is bool and x is y
    if isinstance(y, str):
        return type(x) is str and x == y
    if isinstance(x, bool) or not isinstance(x, numbers.Number):
        return False
    return x == y


def accept(got, row, raw):
    if same(got, RM.decode_tagged(row, raw)):
        return True
    return any(same(got, alt) for alt in RM.decode_alternatives(row, raw))


# ------------------------------------------------------------------------- units ----
def prng(seed, n=NLOC):
    out = b""
    k = 0
    while len(out) < n:
        out += hashlib.blake2b(b"%d:%d" % (seed, k), digest_size=64).digest()
        k += 1
    return list(out[:n])


def make_image(spec, bankobj):
    """Image spec -> list of NLOC ints/None.  'ff' | '00' | 'ramp' | 'default' | ['prng', n] | ['hex', s] |
    ['text', byte, pos[, tail]] (see text_image) | ['edge', k] (see edge_image)"""
    if spec == "ff":
        return [0xFF] * NLOC
    if spec == "00":
        return [0x00] * NLOC
    if spec == "ramp":
        return [i & 0xFF for i in range(NLOC)]
    if spec == "default":
        # the library's factory-default image is an INPUT here (unknown locations become holes)
        if bankobj == "SYN" or RM.family_of_key(bankobj) is not None:
            return prng(4242)
        c = list(lib()["banks"][bankobj].factory_default_contents())[:NLOC]
        return c + [None] * (NLOC - len(c))      # (only a starting image for the unit model: padded if it comes short)
    if spec[0] == "prng":
        return prng(spec[1])
    if spec[0] == "hex":
        b = bytes.fromhex(spec[1])
        return list((b + bytes(NLOC))[:NLOC])
    if spec[0] == "text":
        return text_image(bankobj, *spec[1:])
    if spec[0] == "edge":
        return edge_image(bankobj, *spec[1:])
    raise ValueError("image spec %r" % (spec,))


# the bytes at which the interpretation of a string changes: NUL ends it, 0x01..0x7f are its characters (0x1f / 0x20 and
# 0x7e / 0x7f: control characters next to the printable range), 0x80..0xff make it invalid
TEXT_BYTES = (0x00, 0x01, 0x1F, 0x20, 0x7E, 0x7F, 0x80, 0xFF)


def string_rows(bankobj):
    return sorted((r for r in all_rows().values() if r["bankobj"] == bankobj and r["kind"] == "string"), key=lambda r: r["first"])


def text_image(bankobj, byte, pos, tail="ascii"):
    """A pseudo-random image in which every string value of the bank holds plain letters and digits, except for `byte`
    at position `pos` of the string (counted from its end if negative, taken modulo its length otherwise; "all": the whole
    field is that byte).  tail = "high": what follows that position is bytes >= 0x80 (meaningless behind a NUL)."""
    if not (isinstance(byte, int) and 0 <= byte <= 255):
        raise ValueError("text image byte %r" % (byte,))
    img = prng(7001 + 257 * byte + (pos if isinstance(pos, int) else 999))
    plain = b"ABCDEFGHIJKLMNOPQRSTUVWXYZ0123456789abcdefghijklmnopqrstuvwxyz"
    for r in string_rows(bankobj):
        locs = r["locs"]
        n = len(locs)
        field = [plain[(i + byte) % len(plain)] for i in range(n)]
        if pos == "all":
            field = [byte] * n
        else:
            k = pos % n
            field[k] = byte
            if tail == "high":
                field[k + 1:] = [0x80 + ((i * 37 + byte) & 0x7F) for i in range(n - k - 1)]
            elif tail != "ascii":
                raise ValueError("text image tail %r" % (tail,))
        for a, b in zip(locs, field):
            img[a] = b
    return img


def edge_rows(bankobj):
    """The multi-byte values of a bank that are not strings (strings have the text images)."""
    return sorted((r for r in all_rows().values() if r["bankobj"] == bankobj and r["width"] > 1 and r["kind"] != "string"),
                  key=lambda r: r["first"])


def edge_count(row):
    return len(RM.edge_raws(row))


def edge_image(bankobj, k):
    """A pseudo-random image in which every multi-byte value of the bank (strings aside) holds the k-th of its
    byte-position boundary patterns (harness.ref_memory.edge_raws: each of 0x00 0x01 0x7f 0x80 0xfe 0xff at every byte
    position, between zeros, between 0xff and between unremarkable bytes; k counts modulo the number of patterns)."""
    if not (isinstance(k, int) and not isinstance(k, bool) and k >= 0):
        raise ValueError("edge image index %r" % (k,))
    img = prng(8100 + k)
    for r in edge_rows(bankobj):
        pats = RM.edge_raws(r)
        for a, b in zip(r["locs"], pats[k % len(pats)]):
            if a < NLOC:
                img[a] = b
    return img


class World:
    """The unit under test, its bank, the other units on the bus and the before-images."""

    def __init__(self, bankobj, kind, short, image, last, holes, lock, unlock_value=0x55, no_dtr0_inc=False,
                 drift=False):
        spec = bankspec(bankobj)
        self.spec = spec
        wide = kind == "device"

        def mkbank(img, uv=0x55):
            return Bank(img, writable=spec["writable"], lockable=spec["lockable"], latchable=spec["has_latch"],
                        unlock_value=uv, has_lock_byte=spec["has_lock_byte"])

        img = make_image(image, bankobj)
        if last is not None:
            img[0] = last
        if lock is not None and spec["has_lock_byte"]:
            img[2] = lock
        for h in holes:
            img[h] = None
        self.image = list(img)
        self.bank = mkbank(img, unlock_value)
        if drift:
            self.bank.drift = make_drift()
        bno = spec["bank"]
        dno = (bno + 1) % 256
        seed = 977 * bno + short
        d_img = prng(seed + 1)
        d_img[0] = 0xFE
        self.decoy = mkbank(d_img)
        o1, o2 = prng(seed + 2), prng(seed + 3)
        o1[0] = o2[0] = 0xFE
        Same, Other = (DevMemModel, MemGear) if wide else (MemGear, DevMemModel)
        self.target = Same(short=short, banks={bno: self.bank, dno: self.decoy}, name="target")
        self.target.dtr0, self.target.dtr1, self.target.dtr2 = 0xA7, dno, 0x5C
        self.target.no_dtr0_increment = no_dtr0_inc
        self.neighbour = Same(short=(short + 1) % 64, banks={bno: mkbank(o1)}, name="neighbour")
        self.twin = Other(short=short, banks={bno: mkbank(o2)}, name="twin")
        self.units = [self.target, self.neighbour, self.twin]
        self.others = [("decoy bank", self.decoy), ("neighbour", self.neighbour.banks[bno]), ("twin", self.twin.banks[bno])]
        self.before_others = [list(b.contents) for _, b in self.others]

    def implemented(self, loc):
        img = self.image
        return loc < NLOC and img[0] is not None and loc <= img[0] and img[loc] is not None

    def others_changed(self):
        return [n for (n, b), before in zip(self.others, self.before_others) if b.contents != before]


class MemBus(Bus):
    """Bus whose single fault is addressed by QUERY index (the q-th command that expects an answer).
    fault = (q, kind, x): kind 'silence' | 'garble' | 'replace' (answer XOR x, only if there is one answer)."""

    def __init__(self, units, fault=None, max_commands=2000, watch=None):
        super().__init__(units, max_commands=max_commands)
        self.fault = fault
        self.q = 0
        self.injected = None       # (query index, kind) once the fault has changed an answer
        self.fault_step = None
        self.watch = watch         # unit whose memory-access logs say what the faulted command was
        self.fault_access = None   # ("read", (bank, loc, answer)) | ("write", (bank, loc, data, executed)) | ("other", None)

    def transact(self, cmd):
        from dali import frame
        self.n += 1
        if self.n > self.max_commands:
            raise NonTermination("more than %d commands" % self.max_commands)
        self.commands.append(cmd)
        f = cmd.frame
        bits, value = len(f), f.as_integer
        if bits == 16 and cmd.devicetype != 0:
            self.put(16, 0xC100 | (cmd.devicetype & 0xFF), False)
        wu = self.watch
        nr, nw = (len(wu.read_log), len(wu.mem_write_log)) if wu is not None else (0, 0)
        answers = self.put(bits, value, bool(cmd.sendtwice))
        if cmd.response is None:
            return None
        q = self.q
        self.q += 1
        if self.fault is not None and self.fault[0] == q:
            if wu is not None and len(wu.read_log) > nr:
                self.fault_access = ("read", wu.read_log[-1])
            elif wu is not None and len(wu.mem_write_log) > nw:
                self.fault_access = ("write", wu.mem_write_log[-1])
            else:
                self.fault_access = ("other", None)
            kind, x = self.fault[1], self.fault[2] if len(self.fault) > 2 else None
            if kind == "silence":
                if answers:
                    self.injected = (q, kind)
                answers = []
            elif kind == "garble":
                self.injected = (q, kind)
                answers = [answers[0] if answers else 0x55] * 2
            elif kind == "replace":
                if len(answers) == 1 and x:
                    self.injected = (q, kind)
                    answers = [answers[0] ^ (x & 0xFF)]
            self.fault_step = self.n - 1
        if not answers:
            bf = None
        elif len(answers) == 1:
            bf = frame.BackwardFrame(answers[0])
        else:
            v = 0
            for a in answers:
                v |= a
            bf = frame.BackwardFrameError(v & 0xFF)
        return cmd.response(bf)


def hexs(bs):
    return " ".join("--" if b is None else "%02x" % b for b in bs)


# ------------------------------------------------------------------- single value ----
def _where(case):
    s = "%s via %s address %d, last location %s, holes %s, lock byte %s" % (
        case.get("key") or case.get("bank"), case["addr"], case["short"],
        "default" if case["last"] is None else "0x%02x" % case["last"], case["holes"],
        "-" if case.get("lock") is None else "0x%02x" % case["lock"])
    if case.get("fault"):
        s += ", %s at read #%d" % (case["fault"][1], case["fault"][0])
    return s


def _unit_checks(w, out, where, returned, latch_requested=False):
    """Memory untouched, other units untouched."""
    bank = w.bank
    if not latch_requested:
        # a read that was not asked to latch has no business writing to the unit: the lock byte (which may hold the
        # caller's own latch 0xAA or an unlocked 0x55) must be exactly what it was and no write may be attempted
        if w.spec["has_lock_byte"] and bank.contents[2] != w.image[2]:
            out.append(("C09:read-without-latch-changed-lock-byte", "%s: lock byte went from 0x%02x to 0x%02x although no latch "
                        "was requested" % (where, w.image[2] if w.image[2] is not None else -1,
                                           bank.contents[2] if bank.contents[2] is not None else -1)))
        elif [e for e in w.target.mem_write_log if e[0] == w.spec["bank"]]:
            out.append(("C09:read-without-latch-wrote-to-unit", "%s: write(s) %r were sent to the bank although no latch was "
                        "requested" % (where, [tuple(e)[:3] for e in w.target.mem_write_log][:4])))
    k = bank.drift_calls
    exp = list(w.image)
    if k:
        for i in range(3, NLOC):
            if exp[i] is not None:
                exp[i] = (exp[i] + k) & 0xFF
    skip2 = w.spec["has_lock_byte"]
    diff = [i for i in range(NLOC) if bank.contents[i] != exp[i] and not (skip2 and i == 2)]
    if diff:
        out.append(("C09:unit-modified", "%s: memory location(s) %s changed by the read" % (where, ["0x%02x" % i for i in diff[:6]])))
    ch = w.others_changed()
    if ch:
        out.append(("C09:other-unit-modified", "%s: memory of %s changed" % (where, ch)))
    if returned and skip2 and bank.contents[2] == 0xAA and w.image[2] != 0xAA:
        bno = w.spec["bank"]
        ignored = [e for e in w.target.mem_write_log if e[0] == bno and e[1] == 2 and e[2] != 0xAA and not e[3]]
        attempted = [e for e in w.target.mem_write_log if e[0] == bno and e[1] == 2 and e[2] != 0xAA]
        if ignored:
            out.append(("C09:read_all-leaves-bank-latched",
                        "%s: the lock byte is left at 0xAA (bank latched): the un-latch WRITE MEMORY LOCATION(0x%02x) was "
                        "ignored by the unit because READ MEMORY LOCATION had reset writeEnableState and ENABLE WRITE "
                        "MEMORY was not repeated" % (where, ignored[-1][2])))
        elif not attempted:
            out.append(("C09:read_all-no-unlatch-attempt", "%s: the lock byte is left at 0xAA (bank latched) and no write "
                        "to location 0x02 followed the latch" % where))
        else:
            out.append(("C09:read_all-unlatch-failed", "%s: the lock byte is left at 0xAA (bank latched)" % where))


class Job:
    """One read sequence prepared against its own world (units + bus); judged once its outcome is known."""

    def __init__(self, kind, case, w, bus, seq, where, **kw):
        self.kind, self.case, self.w, self.bus, self.seq, self.where = kind, case, w, bus, seq, where
        self.__dict__.update(kw)


def run_alone(job):
    """-> ("returned", value) | ("raised", exception): the job's sequence run to its end on its own bus"""
    try:
        return ("returned", job.bus.run(job.seq()))
    except Exception as e:  # noqa: classified by settle()
        return ("raised", e)


def settle(job, oc):
    """Outcome of a finished sequence -> (outcome class, value, exception, violations that end the judgement)."""
    exc = lib()["exc"]
    if oc[0] == "returned":
        return "returned", oc[1], None, None
    e = oc[1]
    if isinstance(e, exc.MemoryLocationNotImplemented):
        return "not-implemented", None, e, None
    if isinstance(e, exc.ResponseError):
        return "response-error", None, e, None
    if isinstance(e, NonTermination):
        return None, None, e, [("C09:nontermination", "%s: more than %d commands" % (job.where, job.bus.max_commands))]
    if library_frame(e.__traceback__) is None:
        raise e
    return None, None, e, [("C09:raised:%s@%s" % (type(e).__name__, library_frame(e.__traceback__)),
                            "%s raised %r" % (job.where, e))]


def prep_value(case, w=None, cls=None):
    L = lib()
    row = all_rows()[case["key"]]
    cls = cls or L["classes"].get(case["key"])
    if cls is None:
        return None
    if w is None:
        w = World(row["bankobj"], case["addr"], case["short"], case["image"], case["last"], case["holes"], case.get("lock"))
    fault = tuple(case["fault"]) if case.get("fault") else None
    bus = MemBus(w.units, fault=fault, max_commands=40 + 4 * row["width"], watch=w.target)
    return Job("value", case, w, bus, lambda: cls.read(make_addr(case["addr"], case["short"])),
               "read of " + _where(case), row=row)


def case_value(case):
    job = prep_value(case)
    if job is None:
        return []
    return judge_value(job, run_alone(job))


def judge_value(job, oc):
    case, w, bus, where, row = job.case, job.w, job.bus, job.where, job.row
    name = signame(row)
    outcome, val, err, early = settle(job, oc)
    if early:
        return early
    out = []
    # which location did the fault hit?
    silenced, garbled = set(), False
    if bus.injected:
        q, kind = bus.injected
        if bus.fault_access[0] != "read" or bus.fault_access[1][0] != w.spec["bank"]:
            LAST_OUTCOME[0] = "outcome:fault-on-a-query-that-is-not-a-read"     # not a fault the statement names
            return out
        b, loc, _ = bus.fault_access[1]
        if kind == "silence":
            silenced.add(loc)
        else:
            garbled = True
    impl = [w.implemented(a) and a not in silenced for a in row["locs"]]
    expect_ni = not all(impl)
    raw = [w.image[a] if a < NLOC else None for a in row["locs"]]
    if outcome == "not-implemented":
        if not expect_ni:
            out.append(("C09:not-implemented-unexpected", "%s raised MemoryLocationNotImplemented (%s) although every "
                        "declared location is implemented and answered; bytes [%s]" % (where, err, hexs(raw))))
    elif outcome == "response-error":
        if not garbled:
            out.append(("C09:response-error-unexpected", "%s raised ResponseError (%s) without a garbled answer" % (where, err)))
    else:
        if expect_ni:
            out.append(("C09:not-implemented-expected", "%s returned %r although location(s) %s are not implemented%s"
                        % (where, val, ["0x%02x" % a for a, ok in zip(row["locs"], impl) if not ok],
                           " / were silenced" if silenced else "")))
        elif garbled:
            out.append(("C09:garble-not-reported", "%s returned %r although the answer to one read was a framing error"
                        % (where, val)))
        elif not accept(tag(val), row, raw):
            out.append(("C09:value-mismatch:" + name, "%s returned %r; the bytes at the declared locations %s are [%s], "
                        "reference decode %r" % (where, val, ["0x%02x" % a for a in row["locs"]], hexs(raw),
                                                 RM.decode(row, raw))))
    _unit_checks(w, out, where, outcome == "returned")
    LAST_OUTCOME[0] = "outcome:value:" + outcome
    return out


# --------------------------------------------------------------------- whole bank ----
def prep_bank(case, w=None, bank_obj=None):
    L = lib()
    bankobj = case["bank"]
    spec = bankspec(bankobj)
    bank_obj = bank_obj or L["banks"].get(bankobj)
    if bank_obj is None:
        return None
    use_latch = bool(case["use_latch"])
    holes = case["holes"]
    last = case["last"]
    # can a latch be set at all?
    probe = w or World(bankobj, case["addr"], case["short"], case["image"], last, holes, case.get("lock"))
    latch_possible = bool(use_latch and spec["has_latch"] and probe.implemented(2))
    drift = bool(case.get("drift")) and latch_possible
    if w is not None:
        # a unit with a past (see case_history): it drifts during this read only
        w.bank.drift = make_drift() if drift else None
    else:
        w = World(bankobj, case["addr"], case["short"], case["image"], last, holes, case.get("lock"), drift=drift) \
            if drift else probe
    fault = tuple(case["fault"]) if case.get("fault") else None
    bus = MemBus(w.units, fault=fault, max_commands=300, watch=w.target)
    # the option as the caller spells it: case["use_latch"] is what it MEANS (a bool), case["spell"] names the object used
    style = case.get("spell")
    where = "read_all(use_latch=%r%s) of %s" % (spelled(style, use_latch), ", live memory drifting" if drift else "",
                                                _where(case))
    return Job("bank", case, w, bus,
               lambda: bank_obj.read_all(make_addr(case["addr"], case["short"]), use_latch=spelled(style, use_latch)),
               where, latch_possible=latch_possible, drift=drift)


def case_bank(case):
    job = prep_bank(case)
    if job is None:
        return []
    return judge_bank(job, run_alone(job))


def judge_bank(job, oc):
    L = lib()
    case, w, bus, where = job.case, job.w, job.bus, job.where
    latch_possible, drift = job.latch_possible, job.drift
    spec = w.spec
    use_latch = case["use_latch"]
    outcome, val, err, early = settle(job, oc)
    if early:
        return early
    out = []
    silenced, garbled_loc, garbled = set(), None, False
    if bus.injected:
        q, kind = bus.injected
        if bus.fault_access[0] != "read" or bus.fault_access[1][0] != w.spec["bank"]:
            LAST_OUTCOME[0] = "outcome:fault-on-a-query-that-is-not-a-read"     # not a fault the statement names
            return out
        b, loc, _ = bus.fault_access[1]
        if kind == "silence":
            silenced.add(loc)
        else:
            garbled, garbled_loc = True, loc

    def impl(a):
        return w.implemented(a) and a not in silenced

    accessible = impl(0)
    # the image the reported values must come from
    if latch_possible and accessible and w.bank.snapshots:
        src = w.bank.snapshots[-1]
    else:
        src = w.image
    if latch_possible and accessible and not w.bank.snapshots and outcome == "returned":
        out.append(("C09:read_all-latch-not-set", "%s: the bank supports latching and use_latch is set, but the unit "
                    "never received the latch value 0xAA at location 0x02" % where))
    expected = {}
    if accessible:
        for r in spec["values"]:
            if all(impl(a) for a in r["locs"]):
                expected[r["key"]] = [src[a] for a in r["locs"]]
    # must a garbled read be reported?
    garble_must = False
    if garbled:
        if garbled_loc == 0:
            garble_must = w.implemented(0)
        else:
            garble_must = any(garbled_loc in all_rows()[k]["locs"] for k in expected)
    if outcome == "not-implemented":
        if accessible:
            out.append(("C09:read_all-not-implemented-unexpected", "%s raised MemoryLocationNotImplemented (%s) although "
                        "location 0x00 is implemented" % (where, err)))
    elif outcome == "response-error":
        if not garbled:
            out.append(("C09:response-error-unexpected", "%s raised ResponseError (%s) without a garbled answer" % (where, err)))
    else:
        if garble_must:
            out.append(("C09:garble-not-reported", "%s returned normally although the read of location 0x%02x was "
                        "answered with a framing error" % (where, garbled_loc)))
        else:
            got = {}
            for k, v in val.items():
                key = L["cls_key"].get(k)
                if key is None:
                    out.append(("C09:read_all-unknown-key", "%s: result has key %r" % (where, k)))
                    continue
                if all_rows()[key]["cls"] in HEADER and all_rows()[key]["module"] == "dali.memory.location":
                    continue
                got[key] = v
            if garbled and not garble_must:
                # values touching the garbled location are unconstrained
                for d in (got, expected):
                    for k in list(d):
                        if garbled_loc in all_rows()[k]["locs"]:
                            del d[k]
            missing = sorted(k for k in expected if k not in got and k in L["classes"])
            extra = sorted(k for k in got if k not in expected)
            if missing:
                out.append(("C09:read_all-missing-value", "%s: %s missing from the result although all their locations are "
                            "implemented (last accessible location 0x%02x)" % (where, missing[:4], w.image[0])))
            if extra:
                out.append(("C09:read_all-extra-value", "%s: %s reported although not all their locations are implemented"
                            % (where, extra[:4])))
            for k in sorted(got):
                if k in expected:
                    r = all_rows()[k]
                    if not accept(tag(got[k]), r, expected[k]):
                        sig = "C09:read_all-value-mismatch:" + signame(r)
                        if drift:
                            sig = "C09:read_all-not-the-latched-snapshot"
                        out.append((sig, "%s: %s reported as %r; bytes %s[%s], reference decode %r"
                                    % (where, k, got[k], "in the latched snapshot " if src is not w.image else "",
                                       hexs(expected[k]), RM.decode(r, expected[k]))))
                        break
    _unit_checks(w, out, where, outcome == "returned", latch_requested=bool(use_latch and spec["has_latch"]))
    LAST_OUTCOME[0] = "outcome:bank:" + (outcome if outcome != "returned" else
                                         "returned-%s" % ("nothing" if not val else "all" if len(expected) == len(spec["values"])
                                                          else "some"))
    return out


# --------------------------------------------------- several sequences in flight ----
LAST_INTER = [None]     # (id(case), did the sequences really overlap in time) of the most recent interleaved case
PREP = {"value": prep_value, "bank": prep_bank}
JUDGE = {"value": judge_value, "bank": judge_bank}


def _seq_name(c):
    if c["kind"] == "value":
        return "value-read"
    return "read_all"


def _result_tags(oc):
    """Comparable form of a sequence outcome: exception class, tagged value, or {value key: tagged value}."""
    if oc[0] == "raised":
        return ("raised", type(oc[1]).__name__)
    v = oc[1]
    if isinstance(v, dict):
        ck = lib()["cls_key"]
        return ("returned", {ck.get(k, repr(k)): tag(x) for k, x in v.items()})
    return ("returned", tag(v))


def _identical(a, b):
    return a[0] == b[0] and (a[0] == "flag" and a[1] == b[1] or a[0] != "flag" and type(a[1]) is type(b[1]) and a[1] == b[1])


def _result_diff(got, ref):
    """None, or a description of how two outcomes of the same sequence differ."""
    g, r = _result_tags(got), _result_tags(ref)
    if g[0] != r[0] or g[0] == "raised":
        return None if g == r else "%s %s instead of %s %s" % (g[0], g[1] if g[0] == "raised" else "normally", r[0],
                                                                 r[1] if r[0] == "raised" else "normally")
    g, r = g[1], r[1]
    if isinstance(r, dict) != isinstance(g, dict):
        return "returned %r instead of %r" % (g, r)
    if not isinstance(r, dict):
        return None if _identical(g, r) else "returned %r instead of %r" % (g[1], r[1])
    d = []
    for k in sorted(set(g) | set(r)):
        if k not in g:
            d.append("%s absent (alone: %r)" % (k, r[k][1]))
        elif k not in r:
            d.append("%s = %r (alone: absent)" % (k, g[k][1]))
        elif not _identical(g[k], r[k]):
            d.append("%s = %r (alone: %r)" % (k, g[k][1], r[k][1]))
    return None if not d else "%d value(s) differ: %s" % (len(d), "; ".join(d[:4]))


def _memory(w):
    return [(u.name, b, list(u.banks[b].contents)) for u in w.units for b in sorted(u.banks)]


def case_interleaved(case):
    """Several read sequences in flight at once, each on its own bus against its own units, advanced command by command
    in the order given by case['schedule'] (then case['cycle'] repeatedly).  Every sequence must satisfy the
    single-sequence oracle on its own unit, must return what it returns when it runs alone, and must leave the unit's
    memory as it does when it runs alone."""
    subs = case["jobs"]
    jobs = [PREP[c["kind"]](c) for c in subs]
    if any(j is None for j in jobs):
        return []
    order = []
    ocs = run_interleaved([(j.bus, j.seq) for j in jobs], expand_schedule(case.get("schedule")),
                          expand_schedule(case.get("cycle")) or None, order=order)
    switches = sum(1 for a, b in zip(order, order[1:]) if a != b)
    LAST_INTER[0] = (id(case), switches > len(jobs) - 1)
    sched = "schedule %s (index or [index, count]) then %s repeated" % (_short_list(case.get("schedule") or []),
                                                                     case.get("cycle") or "round-robin")
    out, seen = [], set()

    def add(sig, msg):
        if sig not in seen:
            seen.add(sig)
            out.append((sig, msg))

    for i, (job, oc) in enumerate(zip(jobs, ocs)):
        vs = JUDGE[job.kind](job, oc)
        ref = PREP[job.kind](subs[i])
        roc = run_alone(ref)
        rvs = JUDGE[ref.kind](ref, roc)
        for sig, msg in rvs:                       # not a matter of interleaving: the sequence fails on its own
            add(sig, msg)
        alone = set(sig for sig, _ in rvs)
        why = None
        if _result_diff(oc, roc):
            why = _result_diff(oc, roc)
        elif _memory(job.w) != _memory(ref.w):
            why = "the unit's memory is left different"
        elif [v for v in vs if v[0] not in alone]:
            why = "%s: %s" % [v for v in vs if v[0] not in alone][0]
        if why:
            others = sorted(set(_seq_name(c) + (" of the same bank object" if _bankobj(c) == _bankobj(subs[i]) else "")
                                for k, c in enumerate(subs) if k != i))
            add("C09:interleaved-sequences-interfere:%s" % _seq_name(subs[i]),
                "sequence #%d of %d in flight at the same time on separate buses (%s; others: %s): %s - compared with "
                "the same sequence run alone against the same unit: %s" % (i, len(jobs), sched, ", ".join(others),
                                                                           job.where, why))
    LAST_OUTCOME[0] = "outcome:interleaved:" + ("overlapping" if LAST_INTER[0][1] else "sequential")
    return out


def expand_schedule(entries):
    """Schedule as stored in a case: entries are sequence indices or [index, repeat count] pairs."""
    out = []
    for e in entries or ():
        if isinstance(e, (list, tuple)):
            out.extend([e[0]] * e[1])
        else:
            out.append(e)
    return out


def _bankobj(c):
    return c["bank"] if c["kind"] == "bank" else all_rows()[c["key"]]["bankobj"]


def _short_list(x):
    x = list(x)
    return str(x) if len(x) <= 24 else "%s... (%d entries)" % (str(x[:24])[:-1], len(x))


# ------------------------------------------------- operations one after the other ----
class DriverFailed(Exception):
    """What a driver that lost its connection raises into the sequence it is running."""


READ_OPS = ("read_all", "value")
QUERY_OPS = ("is_locked", "last_address", "is_addressable", "value_is_locked")     # readings of the header bytes: judged
HELPER_OPS = ("latch", "unlatch") + QUERY_OPS


def query_expectation(name, w, row):
    """What a query helper must report about the unit as it is NOW, from the unit model's memory and the reference
    tables: ("value", v) | ("value-or-not-implemented", v) | ("open", why) when the byte it needs cannot be read."""
    spec = w.spec
    la = w.bank.read(0)
    lk = w.bank.read(2) if spec["has_lock_byte"] else None
    if name == "last_address":
        return ("open", "location 0x00 is not implemented") if la is None else ("value", la)
    if name == "is_addressable":
        if la is None:
            return ("value-or-not-implemented", False)
        return ("value", max(row["locs"]) <= la)
    if name == "value_is_locked" and not (row["memtype"][0] == "NVM_RW_L" and spec["has_lock"]):
        return ("value", False)
    if not spec["has_lock"]:
        return ("value", False)
    return ("open", "the lock byte is not implemented") if lk is None else ("value", lk != 0x55)


def judge_query(name, text, exp, oc, where):
    """-> violations of one query helper that ran to its end without an injected fault"""
    exc = lib()["exc"]
    if oc[0] == "returned":
        if exp[0] != "open" and not (isinstance(oc[1], int) and oc[1] == exp[1]):
            return [("C09:query-helper-wrong-result:" + name, "%s returned %r; the unit's memory says %r (%s)"
                     % (text, oc[1], exp[1], where))]
        return []
    e = oc[1]
    if isinstance(e, exc.MemoryLocationNotImplemented):
        if exp[0] == "value":
            return [("C09:query-helper-not-implemented-unexpected:" + name, "%s raised MemoryLocationNotImplemented (%s) "
                     "although the byte it reads is implemented; expected %r (%s)" % (text, e, exp[1], where))]
        return []
    if isinstance(e, NonTermination):
        return [("C09:nontermination", "%s: more than 400 commands (%s)" % (text, where))]
    return [("C09:query-helper-raised:%s:%s" % (name, type(e).__name__), "%s raised %r without any fault on the bus (%s)"
             % (text, e, where))]


def rebase(w):
    """The unit as it is NOW becomes the 'before' picture of the next judged read."""
    b = w.bank
    b.drift = None
    if b.snapshot is not None:
        # left latched: the latched values are the unit's values (the lock byte is live)
        for i in range(3, len(b.contents)):
            b.contents[i] = b.snapshot[i]
    w.image = list(b.contents)
    b.drift_calls = 0
    b.snapshots = []
    w.target.read_log = []
    w.target.mem_write_log = []
    w.before_others = [list(x.contents) for _, x in w.others]


def clone_world(w):
    """An independent copy of the units of w as they are now."""
    c = copy.copy(w)
    c.units = copy.deepcopy(w.units)
    c.target, c.neighbour, c.twin = c.units
    bno = w.spec["bank"]
    c.bank = c.target.banks[bno]
    c.decoy = c.target.banks[(bno + 1) % 256]
    c.others = [("decoy bank", c.decoy), ("neighbour", c.neighbour.banks[bno]), ("twin", c.twin.banks[bno])]
    c.image = list(w.image)
    c.before_others = [list(x) for x in w.before_others]
    return c


def fresh_bank(bankobj):
    """A MemoryBank without a past, declared from the public declarations of the library's bank object:
    -> (bank object, {value class name: new value class, ...}, {new value class: the library's class})"""
    L = lib()
    src = L["banks"][bankobj]
    location = L["location"]
    la = src.LastAddress.locations[0].default
    nb = location.MemoryBank(src.address, la, has_lock=src.has_lock, has_latch=src.has_latch)
    by_name, back = {"LastAddress": nb.LastAddress}, {nb.LastAddress: src.LastAddress}
    if nb.LockByte is not None:
        by_name["LockByte"] = nb.LockByte
        back[nb.LockByte] = src.LockByte
    for cls in src.values:
        if cls is src.LastAddress or cls is src.LockByte:
            continue
        new = type(cls.__name__, (cls,), {"bank": nb, "locations": tuple(cls.locations)})
        by_name[cls.__name__] = new
        back[new] = cls
    return nb, by_name, back


def run_partial(bus, gen, n, how):
    """Advance gen until it wants to put its (n+1)-th command on the bus, then give it up: 'close' (the caller closes
    the generator), 'throw' (the driver raises into it), 'drop' (the caller just forgets it)."""
    from dali import command
    resp, sent = None, 0
    try:
        while True:
            item = gen.send(resp)
            resp = None
            if isinstance(item, command.Command):
                if sent >= n:
                    break
                resp = bus.transact(item)
                sent += 1
    except StopIteration:
        return "finished"
    if how == "throw":
        try:
            gen.throw(DriverFailed("connection lost"))
        except (DriverFailed, StopIteration):
            pass
        finally:
            gen.close()
    elif how == "close":
        gen.close()
    del gen
    return "abandoned"


def _tolerated(e):
    """Is e something an operation that is not judged may raise?  (anything that comes out of the library)"""
    if isinstance(e, (DriverFailed, NonTermination)):
        return True
    return library_frame(e.__traceback__) is not None


def _op_text(op, units):
    u = units[op["unit"]]
    s = op["op"]
    if s == "read_all":
        s += "(use_latch=%r)" % (spelled(op.get("spell"), op.get("use_latch", True)),)
    if op.get("key"):
        s += " " + op["key"].split(".", 1)[-1]
    if s == "other-controller":
        s = "another controller uses the DTRs" + (" and writes 0x%02x to the lock byte" % op["lock"] if op.get("lock") is not None else "")
    s += " @unit%d" % op["unit"]
    if op.get("fault"):
        s += " [%s at read #%d]" % (op["fault"][1], op["fault"][0])
    if op.get("stop"):
        s += " [given up after %d command(s): %s]" % (op["stop"][0], op["stop"][1])
    return s


def _sub_case(bankobj, u, op):
    if op["op"] == "value":
        return dict(u, kind="value", key=op["key"], fault=op.get("fault"))
    return dict(u, kind="bank", bank=bankobj, use_latch=bool(op.get("use_latch", True)), drift=bool(op.get("drift")),
                fault=op.get("fault"), spell=op.get("spell"))


def case_history(case):
    """Operations of ONE bank object run one after the other (never overlapping) on case['units'], each unit with buses
    of its own.  Every complete read is judged on the unit as it is when the read starts, and compared with the same
    read made by a bank object without a past against a copy of that unit."""
    L = lib()
    bankobj = case["bank"]
    bank_obj = L["banks"].get(bankobj)
    if bank_obj is None:
        return []
    spec = bankspec(bankobj)
    units = case["units"]
    worlds = [World(bankobj, u["addr"], u["short"], u["image"], u["last"], u["holes"], u.get("lock")) for u in units]
    out, seen = [], set()
    judged = queries = 0

    def add(sig, msg):
        if sig not in seen:
            seen.add(sig)
            out.append((sig, msg))

    for k, op in enumerate(case["ops"]):
        w, u = worlds[op["unit"]], units[op["unit"]]
        name = op["op"]
        if name == "other-controller":
            t = w.target
            t.dtr0, t.dtr1, t.dtr2 = 0xA7, (spec["bank"] + 1) % 256, 0x5C
            t.write_enabled = False
            if op.get("lock") is not None and spec["has_lock_byte"] and w.bank.readable(2) is not None:
                w.bank.write(2, op["lock"])
            continue
        addr = make_addr(u["addr"], u["short"])
        cls = L["classes"].get(op.get("key")) if op.get("key") else None
        if name in ("value", "is_addressable", "value_is_locked") and cls is None:
            continue
        if name in READ_OPS and not op.get("stop"):
            # ---- a complete read: judged
            rebase(w)
            sub = _sub_case(bankobj, u, op)
            if spec["has_lock_byte"]:
                sub["lock"] = w.image[2]           # what the lock byte holds now (for the description only)
            ref_w = clone_world(w)
            job = PREP[sub["kind"]](sub, w=w)
            oc = run_alone(job)
            vs = JUDGE[job.kind](job, oc)
            w.bank.drift = None
            judged += 1
            past = "; ".join(_op_text(o, units) for o in case["ops"][:k]) or "nothing"
            try:
                nb, by_name, back = fresh_bank(bankobj)
            except Exception as e:  # noqa: the declarations cannot be repeated - no reference then
                if not _tolerated(e):
                    raise
                nb = None
            if nb is None or (cls is not None and cls.__name__ not in by_name):
                for sig, msg in vs:
                    add(sig, "%s (after: %s)" % (msg, past) if k else msg)
                continue
            ref = PREP[sub["kind"]](sub, w=ref_w, bank_obj=nb) if sub["kind"] == "bank" else \
                PREP[sub["kind"]](sub, w=ref_w, cls=by_name[cls.__name__])
            roc = run_alone(ref)
            ref_w.bank.drift = None
            if roc[0] == "returned" and isinstance(roc[1], dict):
                roc = ("returned", {back.get(c, c): v for c, v in roc[1].items()})
            rvs = JUDGE[ref.kind](ref, roc)
            for sig, msg in rvs:                   # the read fails without a past as well
                add(sig, msg)
            alone = set(sig for sig, _ in rvs)
            why = None
            if _result_diff(oc, roc):
                why = _result_diff(oc, roc)
            elif job.bus.trace != ref.bus.trace:
                a, b = job.bus.trace, ref.bus.trace
                i = next((i for i in range(min(len(a), len(b))) if a[i] != b[i]), min(len(a), len(b)))
                why = "the frames on the bus differ from #%d on: %s, without a past %s (%d and %d frames in all)" % (
                    i, _frame_text(a[i:i + 3]), _frame_text(b[i:i + 3]), len(a), len(b))
            elif _memory(job.w) != _memory(ref.w):
                why = "the unit's memory is left different"
            elif [v for v in vs if v[0] not in alone]:
                why = "same frames, result and memory, but only the read with a past fails the single-read oracle"
            fresh = [v for v in vs if v[0] not in alone]
            if why:
                add("C09:earlier-operations-interfere:%s" % name,
                    "%s of bank object %s, after these operations of the same bank object: %s - compared with the same read "
                    "by a newly declared equivalent MemoryBank against a copy of the unit: %s%s"
                    % (job.where, bankobj, past, why, ("; " + "; ".join("%s [%s]" % (m, s_) for s_, m in fresh[:2])) if fresh else ""))
            continue
        # ---- latch / unlatch and reads that are given up: not judged; query helpers run to their end: judged
        if name not in READ_OPS + HELPER_OPS:
            raise ValueError("operation %r" % (name,))
        bus = MemBus(w.units, fault=tuple(op["fault"]) if op.get("fault") else None, max_commands=400, watch=w.target)
        query = name in QUERY_OPS and not op.get("stop")
        if query:
            q_exp = query_expectation(name, w, all_rows()[op["key"]] if op.get("key") else None)
            q_mem = _memory(w)
            q_oc = None
        try:
            if name == "latch":
                gen = bank_obj.latch(addr)
            elif name == "unlatch":
                gen = bank_obj.unlatch(addr)
            elif name == "is_locked":
                gen = bank_obj.is_locked(addr)
            elif name == "last_address":
                gen = bank_obj.last_address(addr)
            elif name == "is_addressable":
                gen = cls.is_addressable(addr)
            elif name == "value_is_locked":
                gen = cls.is_locked(addr)
            elif name == "read_all":
                gen = bank_obj.read_all(addr, use_latch=spelled(op.get("spell"), op.get("use_latch", True)))
            else:
                gen = cls.read(addr)
            if not hasattr(gen, "send"):
                add("C09:operation-is-not-a-sequence:%s" % name, "%s of bank object %s returned %r instead of a command "
                    "sequence (generator)" % (name, bankobj, gen))
                continue
            if op.get("stop"):
                run_partial(bus, gen, op["stop"][0], op["stop"][1])
            else:
                q_oc = ("returned", bus.run(gen))
        except Exception as e:  # noqa: not judged, or judged below
            if not _tolerated(e):
                raise
            q_oc = ("raised", e)
        if query and q_oc is not None and bus.injected is None:
            queries += 1
            text = "%s of bank object %s" % (_op_text(op, units), bankobj)
            where = "unit: %s; earlier operations of the same bank object: %s" % (
                _where(dict(u, bank=bankobj, lock=w.bank.contents[2] if spec["has_lock_byte"] else None)),
                "; ".join(_op_text(o, units) for o in case["ops"][:k]) or "none")
            for sig, msg in judge_query(name, text, q_exp, q_oc, where):
                add(sig, msg)
            if _memory(w) != q_mem:
                add("C09:query-helper-changed-memory", "%s changed the memory of the unit(s) (%s)" % (text, where))
    LAST_OUTCOME[0] = "outcome:history:%d-judged-read%s%s" % (judged, "" if judged == 1 else "s",
                                                              "+judged-queries" if queries else "")
    return out


def _frame_text(fr):
    return "[%s]" % ", ".join("%d-bit %#x%s -> %s" % (b, v, " x2" if t else "", a or "no answer") for b, v, t, a in fr) if fr else "[end]"


def run_case(case):
    ensure_family(case)
    if case["kind"] == "value":
        return case_value(case)
    if case["kind"] == "interleaved":
        return case_interleaved(case)
    if case["kind"] == "history":
        return case_history(case)
    return case_bank(case)


# ----------------------------------------------------------------- non-triviality ----
def features(case):
    """Classes of a case computed from the case and the reference tables alone."""
    f = []
    if case["kind"] == "history":
        ops = case["ops"]
        reads = [i for i, o in enumerate(ops) if o["op"] in READ_OPS and not o.get("stop")]
        if reads and reads[-1] > 0:
            f.append("history:read-with-a-past")
            last = ops[reads[-1]]
            before = ops[:reads[-1]]
            if any(o["op"] == "latch" for o in before):
                f.append("history:after-latch()")
            if any(o.get("stop") for o in before):
                f.append("history:after-abandoned-sequence")
            if any(o.get("fault") for o in before):
                f.append("history:after-faulted-read")
            if any(o["unit"] != last["unit"] for o in before):
                f.append("history:earlier-operations-on-another-unit")
            if any(o["unit"] == last["unit"] for o in before):
                f.append("history:earlier-operations-on-the-same-unit")
            if last["op"] == "read_all" and last.get("use_latch", True) and bankspec(case["bank"])["has_latch"]:
                f.append("history:latched-read")
        if any(o["op"] in QUERY_OPS and not o.get("stop") for o in ops):
            f.append("history:judged-query")
        if any(o.get("spell") for o in ops):
            f.append("option-spelling")
        f.append("history:%d-units" % len(case["units"]))
        return f
    if case["kind"] == "interleaved":
        subs = case["jobs"]
        f.append("interleaved:%d-sequences" % len(subs))
        f.append("interleaved:" + "+".join(sorted(_seq_name(c) for c in subs)))
        objs = [_bankobj(c) for c in subs]
        if len(set(objs)) < len(objs):
            f.append("interleaved:same-bank-object")
        if len(set("device" if c["addr"] == "device" else "gear" for c in subs)) > 1:
            f.append("interleaved:gear+device")
        if any(c["kind"] == "bank" and c["use_latch"] and bankspec(c["bank"])["has_latch"] for c in subs):
            f.append("interleaved:with-latch")
        return f
    holes = set(case["holes"])
    img = case.get("image")
    if isinstance(img, list) and img and img[0] == "text":
        f.append("string-image:" + ("nul" if img[1] == 0 else "0x%02x" % img[1] if img[1] in TEXT_BYTES else "other-byte"))
    if isinstance(img, list) and img and img[0] == "edge" and (
            case["kind"] != "value" or all_rows()[case["key"]] in edge_rows(all_rows()[case["key"]]["bankobj"])):
        f.append("byte-position-edges")
    if case["kind"] == "value":
        row = all_rows()[case["key"]]
        last = case["last"] if case["last"] is not None else 0xFE
        if any(a > last for a in row["locs"]):
            f.append("truncated")
        if holes & set(row["locs"]) or 0 in holes:
            f.append("holed")
        if len(row["locs"]) > 1:
            f.append("multi-byte")
    else:
        spec = bankspec(case["bank"])
        last = case["last"] if case["last"] is not None else spec["last"]
        vals = spec["values"]
        if any(any(a > last for a in r["locs"]) for r in vals):
            f.append("truncated")
        if any(holes & set(r["locs"]) for r in vals) or 0 in holes:
            f.append("holed")
        if case["use_latch"] and spec["has_latch"]:
            f.append("latch")
            if case.get("drift"):
                f.append("latch+drift")
        if case.get("spell"):
            f.append("option-spelling")
        if len(holes) >= last - 2 > 0 and holes >= set(range(3, min(last, NLOC - 1) + 1)):
            f.append("body-unimplemented")
    if case.get("fault"):
        f.append("fault:" + case["fault"][1])
    return f


NONTRIVIAL = ("truncated", "holed", "latch+drift", "fault:silence", "fault:garble", "history:read-with-a-past",
              "history:judged-query", "byte-position-edges")


def is_nontrivial(case):
    if case["kind"] == "interleaved":
        # known once the case has run: did the sequences overlap in time at all?
        return LAST_INTER[0] is not None and LAST_INTER[0][0] == id(case) and LAST_INTER[0][1]
    return any(x in NONTRIVIAL for x in features(case))


# -------------------------------------------------------------------------- shards ----
ADDRS = ("gear", "device", "int")
LOCKS = (0xFF, 0x55, 0x00, 0xAA)
IMAGES = ("ff", "00", "ramp", "default")


def _runner(res, strip=True):
    def run(case, label=None):
        res.count()
        feats = features(case)
        if any(x in NONTRIVIAL for x in feats):
            res.nontrivial()
        for x in feats:
            res.label(x)
        res.label(label or case["kind"])
        LAST_OUTCOME[0] = None
        vs = run_case(case)
        if case["kind"] == "interleaved" and is_nontrivial(case):
            res.nontrivial()
        if LAST_OUTCOME[0]:
            res.label(LAST_OUTCOME[0])
        for sig, msg in vs:
            if strip and sig in KNOWN_DEFECT_SIGS:
                res.excluded[sig] += 1
            else:
                res.violation(sig, case, msg)
    return run


def _value_case(key, addr, short, image, last, holes=(), lock=0xFF, fault=None):
    return {"kind": "value", "key": key, "addr": addr, "short": short, "image": image, "last": last,
            "holes": list(holes), "lock": lock, "fault": fault}


def _bank_case(bank, addr, short, image, last, holes=(), lock=0xFF, use_latch=True, drift=False, fault=None, spell=None):
    c = {"kind": "bank", "bank": bank, "addr": addr, "short": short, "image": image, "last": last,
         "holes": list(holes), "lock": lock, "use_latch": use_latch, "drift": drift, "fault": fault}
    if spell is not None:
        c["spell"] = spell          # the style in which use_latch is handed over (see spelled())
    return c


def _shard_values(arg):
    """Complete: value x last location 0..254; value x single hole; fault at every read index."""
    keys, seed, quick = arg
    res = Result()
    run = _runner(res)
    for ki, key in enumerate(keys):
        row = all_rows()[key]
        if key not in lib()["classes"]:
            continue
        locs = row["locs"]
        short = (seed * 7 + 11 * ki + row["first"]) % 64
        image = ["prng", seed * 131 + ki]
        for last in range(NLOC):
            addrs = ADDRS if not quick else (ADDRS[(last + ki + seed) % 3],)
            for ai, addr in enumerate(addrs):
                run(_value_case(key, addr, short, image, last, lock=LOCKS[(last + ai) % 3]), "value:last-sweep")
        # single holes (and the bank header) at two last-location settings
        for last in sorted({0xFE, max(locs)}):
            for h in sorted(set(locs) | {0, 1, 2}):
                for addr in (ADDRS if not quick else (ADDRS[(h + ki) % 3],)):
                    run(_value_case(key, addr, short, image, last, holes=[h]), "value:single-hole")
        # structured images
        for img in IMAGES:
            for addr in ADDRS:
                run(_value_case(key, addr, short, img, None if img == "default" else 0xFE), "value:image-" + img)
        # strings: every boundary byte alone at every position of otherwise plain text, NUL at every position with plain
        # text / with bytes >= 0x80 behind it, and the whole field filled with that byte
        if row["kind"] == "string":
            for b in TEXT_BYTES:
                for pos in list(range(len(locs))) + ["all"]:
                    for ti, tail in enumerate(("ascii", "high") if b == 0 and pos != "all" else ("ascii",)):
                        k = (pos if pos != "all" else 1) + b + ti + ki + seed
                        run(_value_case(key, ADDRS[k % 3], short, ["text", b, pos, tail], 0xFE, lock=LOCKS[k % 3]),
                            "value:string-image")
        # multi-byte values: every edge byte at every byte position, between zeros / 0xff / unremarkable bytes
        if row in edge_rows(row["bankobj"]):
            for k in range(edge_count(row)):
                j = k + ki + seed
                run(_value_case(key, ADDRS[j % 3], short, ["edge", k], 0xFE if j % 4 else max(locs), lock=LOCKS[j % 3]),
                    "value:byte-position-edges")
        # one fault at each read index, with and without a hole behind it
        for q in range(len(locs) + 1):
            for kind in ("silence", "garble"):
                for addr in (ADDRS if not quick else (ADDRS[(q + ki) % 3],)):
                    run(_value_case(key, addr, short, image, 0xFE, fault=[q, kind]), "value:fault")
                    if len(locs) > 1:
                        run(_value_case(key, addr, short, image, 0xFE, holes=[locs[-1]], fault=[q, kind]), "value:fault+hole")
    res.sample(_value_case(keys[0], "device", 9, ["prng", 1], 0x10, holes=[4], fault=[1, "garble"]), cls="single value")
    return res


def _shard_banks(arg):
    """Whole bank x last location range x latch; single holes; fault at every read index."""
    bankobj, lasts, seed, quick, part = arg
    res = Result()
    run = _runner(res)
    spec = bankspec(bankobj)
    if bankobj not in lib()["banks"]:
        return res
    image = ["prng", seed * 17 + spec["bank"]]
    short = (seed + spec["bank"]) % 64
    latches = (True, False)
    for last in lasts:
        for li, use_latch in enumerate(latches):
            addr = ADDRS[(last + li + seed) % 3]
            run(_bank_case(bankobj, addr, short, image, last, lock=LOCKS[(last + li) % len(LOCKS)], use_latch=use_latch,
                           drift=use_latch), "bank:last-sweep")
    if part == 0:
        top = spec["last"]
        for h in range(0, top + 1):
            for li, use_latch in enumerate(latches):
                run(_bank_case(bankobj, ADDRS[(h + li) % 3], short, image, top, holes=[h], use_latch=use_latch,
                               drift=use_latch), "bank:single-hole")
        for img in IMAGES:
            for addr in ADDRS:
                for use_latch in latches:
                    run(_bank_case(bankobj, addr, short, img, None if img == "default" else top, use_latch=use_latch),
                        "bank:image-" + img)
        # banks with string values: every boundary byte at the first / second / last position of each string and as the
        # whole field; NUL also with bytes >= 0x80 behind it
        if string_rows(bankobj):
            for bi, b in enumerate(TEXT_BYTES):
                for pi, pos in enumerate((0, 1, -1, "all")):
                    for ti, tail in enumerate(("ascii", "high") if b == 0 and pos != "all" else ("ascii",)):
                        k = bi + pi + ti + seed
                        run(_bank_case(bankobj, ADDRS[k % 3], short, ["text", b, pos, tail], top, use_latch=bool(k & 1),
                                       drift=bool(k & 1)), "bank:string-image")
            # ... and at a seed-dependent walk through all positions of the longest string
            longest = max(len(r["locs"]) for r in string_rows(bankobj))
            for pos in range(longest):
                b = TEXT_BYTES[(pos + seed) % len(TEXT_BYTES)]
                run(_bank_case(bankobj, ADDRS[(pos + seed) % 3], short, ["text", b, pos, "high" if pos % 2 else "ascii"], top,
                               use_latch=bool(pos & 1)), "bank:string-image")
        # every multi-byte value of the bank holds its k-th byte-position boundary pattern, for every k
        for k in range(max([edge_count(r) for r in edge_rows(bankobj)] or [0])):
            use_latch = bool((k + seed) & 1)
            run(_bank_case(bankobj, ADDRS[(k + seed) % 3], short, ["edge", k], top, lock=LOCKS[k % len(LOCKS)],
                           use_latch=use_latch, drift=use_latch and k % 4 < 2), "bank:byte-position-edges")
        # nothing but the header answers: every location from the first one read up to the last accessible one is
        # unimplemented (also with one location left that does answer)
        first = 3 if spec["has_lock_byte"] else 2
        for last in sorted(set(range(first, min(top, first + 6) + 1)) | {top, min(0xFE, top + 2)} | (set() if quick else {0xFE})):
            body = list(range(first, last + 1))
            for li, use_latch in enumerate(latches):
                addr = ADDRS[(last + li + seed) % 3]
                run(_bank_case(bankobj, addr, short, image, last, holes=body, lock=LOCKS[(last + li) % len(LOCKS)],
                               use_latch=use_latch), "bank:body-unimplemented")
                for keep in sorted({body[0], body[-1], body[len(body) // 2]}) if len(body) > 1 else ():
                    run(_bank_case(bankobj, addr, short, image, last, holes=[a for a in body if a != keep],
                                   lock=LOCKS[(last + li + 1) % len(LOCKS)], use_latch=use_latch, drift=use_latch),
                        "bank:body-unimplemented-but-one")
        # use_latch given as something other than a bool: it must act as bool(object) says
        mid = max(first, top // 2)
        for si, style in enumerate(spell_styles(quick, seed + spec["bank"])):
            for truth in (True, False):
                for j, (last, holes) in enumerate(((top, []), (mid, []), (top, [min(top, first + 1)]), (first, [first]))):
                    run(_bank_case(bankobj, ADDRS[(si + j + seed) % 3], short, image, last, holes=holes,
                                   lock=LOCKS[(si + j) % len(LOCKS)], use_latch=truth, drift=truth and j != 1, spell=style),
                        "bank:option-spelling")
        nreads = top + 1
        step = 1 if not quick or nreads < 40 else 3
        for q in range(0, nreads + 1, step):
            for kind in ("silence", "garble"):
                for li, use_latch in enumerate(latches):
                    run(_bank_case(bankobj, ADDRS[(q + li) % 3], short, image, top, use_latch=use_latch, drift=use_latch,
                                   fault=[(q + seed) % (nreads + 1) if step > 1 else q, kind]), "bank:fault")
    return res


def inter_schedules(n, la, quick):
    """Named (schedule, cycle) pairs for n sequences in flight; la = roughly the number of commands of sequence 0."""
    rr = list(range(n))
    rev = rr[::-1]
    out = [("round-robin", [], rr),
           ("round-robin-reversed", [], rev),
           ("blocks-of-2", [], [i for i in rr for _ in range(2)]),
           ("blocks-of-5", [], [i for i in rev for _ in range(5)]),
           ("head-start-1", [0], rev),
           ("head-start-3", [[0, 3]], rev),
           ("head-start-half", [[0, max(1, la // 2)]], rev),
           ("nested", [[0, max(1, la // 2)]] + [[i, 600] for i in rr[1:]], rr),
           ("late-start", [[0, max(1, la - 2)]], rev),
           ("sequential", [[i, 600] for i in rr], rr)]
    if not quick:
        out += [("head-start-2", [[0, 2]], rev), ("head-start-5", [[0, 5]], rr),
                ("blocks-of-3", [], [i for i in rr for _ in range(3)]),
                ("blocks-of-7", [], [i for i in rr for _ in range(7)]),
                ("uneven-1-3", [], [0] + [rr[-1]] * 3), ("uneven-3-1", [], [0] * 3 + [rr[-1]]),
                ("head-start-quarter", [[0, max(1, la // 4)]], rev),
                ("nested-early", [[0, 4]] + [[i, 600] for i in rr[1:]], rr)]
    return out


def _inter_case(jobs, schedule, cycle):
    return {"kind": "interleaved", "jobs": jobs, "schedule": schedule, "cycle": cycle}


def _shard_inter(arg):
    """Two or three read sequences of one bank object in flight at once on separate buses, against units with different
    images / last locations / addressing, for a list of interleaving schedules."""
    bankobj, seed, quick = arg
    res = Result()
    run = _runner(res)
    spec = bankspec(bankobj)
    if bankobj not in lib()["banks"]:
        return res
    top = spec["last"]
    mid = max(3, top // 2)
    base = seed * 29 + spec["bank"] * 3
    imgs = [["prng", base + 7000 + i] for i in range(3)]
    shorts = [(seed + spec["bank"] + 5 * i) % 64 for i in range(3)]
    keys = [r["key"] for r in spec["values"] if r["key"] in lib()["classes"]]
    n = 0
    # read_all x read_all of the same bank object
    latches = ((True, True), (True, False), (False, False)) if quick else ((True, True), (True, False), (False, True), (False, False))
    for (ua, ub) in latches:
        for (la_, lb_) in ((top, top), (top, mid), (mid, top), (top, 2)):
            for name, sched, cyc in inter_schedules(2, la_ + 4, quick):
                n += 1
                a = _bank_case(bankobj, ADDRS[n % 3], shorts[0], imgs[0], la_, lock=LOCKS[n % 4], use_latch=ua, drift=ua and n % 2 == 0,
                               spell=SPELL_STYLES[(n // 3 + seed) % len(SPELL_STYLES)] if n % 3 == 0 else None)
                b = _bank_case(bankobj, ADDRS[(n + 1 + n // 3) % 3], shorts[n % 2], imgs[1], lb_, lock=LOCKS[(n + 1) % 4], use_latch=ub,
                               holes=[keys and all_rows()[keys[n % len(keys)]]["locs"][0] or 5] if n % 5 == 0 else [])
                run(_inter_case([a, b], sched, cyc), "interleaved:read_all+read_all:" + name)
    # read_all with single-value reads of the same bank in flight, and pairs of single-value reads
    names = ("round-robin", "head-start-half", "nested", "late-start") if quick else None
    for ki, key in enumerate(keys):
        row = all_rows()[key]
        for si, (name, sched, cyc) in enumerate(inter_schedules(2, top + 4, quick)):
            if names is not None and name not in names:
                continue
            n += 1
            use_latch = bool((ki + si) % 2)
            a = _bank_case(bankobj, ADDRS[n % 3], shorts[0], imgs[0], top, lock=LOCKS[n % 4], use_latch=use_latch)
            v = _value_case(key, ADDRS[(n + 1) % 3], shorts[n % 2], imgs[1], top if n % 3 else max(row["locs"]) - (n % 2),
                            lock=LOCKS[(n + 2) % 4])
            jobs, sc, cy = ([a, v], sched, cyc) if n % 2 else ([v, a], [[1 - e[0], e[1]] if isinstance(e, list) else 1 - e for e in sched],
                                                                [1 - e for e in cyc])
            run(_inter_case(jobs, sc, cy), "interleaved:read_all+value-read:" + name)
        other = keys[(ki + 1) % len(keys)]
        for name, sched, cyc in inter_schedules(2, 3 + row["width"], True)[:6]:
            n += 1
            v1 = _value_case(key, ADDRS[n % 3], shorts[0], imgs[0], top, lock=LOCKS[n % 4])
            v2 = _value_case(key if n % 2 else other, ADDRS[(n + n // 3) % 3], shorts[1], imgs[1], top, lock=LOCKS[(n + 1) % 4])
            run(_inter_case([v1, v2], sched, cyc), "interleaved:value-read+value-read:" + name)
    # three in flight
    for name, sched, cyc in inter_schedules(3, top + 4, quick):
        for use_latch in (True, False):
            n += 1
            a = _bank_case(bankobj, ADDRS[n % 3], shorts[0], imgs[0], top, use_latch=use_latch)
            b = _bank_case(bankobj, ADDRS[(n + 1) % 3], shorts[1], imgs[1], mid if n % 2 else top, use_latch=not use_latch and n % 3 == 0)
            c = _value_case(keys[n % len(keys)], ADDRS[(n + 2) % 3], shorts[2], imgs[2], top) if keys and n % 4 else \
                _bank_case(bankobj, ADDRS[(n + 2) % 3], shorts[2], imgs[2], top, use_latch=use_latch)
            run(_inter_case([a, b, c], sched, cyc), "interleaved:three:" + name)
    res.sample(_inter_case([_bank_case(bankobj, "gear", 3, imgs[0], top), _bank_case(bankobj, "device", 4, imgs[1], mid)],
                           [[0, 5]], [1, 0]), cls="interleaved")
    return res


def _hist_case(bank, units, ops):
    return {"kind": "history", "bank": bank, "units": units, "ops": ops}


def _unit(addr, short, image, last, holes=(), lock=0xFF):
    return {"addr": addr, "short": short, "image": image, "last": last, "holes": list(holes), "lock": lock}


def hist_prefixes(top, key, quick):
    """Named lists of operations (on units 0 and 1) that a judged read may have behind it."""
    A, B = 0, 1
    hows = ("close", "throw", "drop")

    def op(name, unit=A, **kw):
        return dict({"op": name, "unit": unit}, **kw)

    def stop(o, n):
        return dict(o, stop=[n, hows[n % 3]])

    la, lb, ua, ub = op("latch"), op("latch", B), op("unlatch"), op("unlatch", B)
    ra, rn = op("read_all", use_latch=True), op("read_all", use_latch=False)
    va = op("value", key=key)
    out = [("latch", [la]), ("latch-on-other-unit", [lb]), ("latch+value", [la, va]), ("latch+unlatch", [la, ua]),
           ("unlatch", [ua]), ("latch-twice", [la, la]), ("latch+unlatch-twice", [la, ua, ua]),
           ("latch-two-units", [la, lb, ua]), ("latch-two-units+unlatch-both", [la, lb, ub, ua]),
           ("latch+released-by-other-controller", [la, op("other-controller", lock=0xFF)]),
           ("latch+other-controller", [la, op("other-controller")]),
           ("latch+read_all-without-latch+unlatch", [la, rn, ua]), ("latch+read_all", [la, ra]),
           ("read_all", [ra]), ("read_all-without-latch", [rn]), ("read_all-twice", [ra, ra]),
           ("queries", [op("is_locked"), op("last_address"), op("is_addressable", key=key), op("value_is_locked", key=key)]),
           ("value", [va]), ("value+other-controller", [va, op("other-controller")])]
    for n in (1, 2, 3) if quick else (0, 1, 2, 3, 4):
        out.append(("latch-given-up", [stop(la, n)]))
        out.append(("latch+unlatch-given-up", [la, stop(ua, n)]))
    # read_all with latch: 3 commands read the last location, 3 set the latch, then the reads, then 3 release it
    body = top - 2
    stops = (1, 3, 4, 5, 6, 7, 6 + body // 2, 5 + body, 6 + body, 7 + body, 8 + body) if quick else \
        tuple(range(0, 12)) + tuple(range(6 + body // 2, 10 + body))
    for n in stops:
        out.append(("read_all-given-up", [stop(ra, n)]))
    for n in (2, 4, 3 + body // 2) if quick else tuple(range(0, 8)) + (3 + body // 2, 2 + body, 3 + body):
        out.append(("read_all-without-latch-given-up", [stop(rn, n)]))
        out.append(("latch+read_all-without-latch-given-up", [la, stop(rn, n)]))
    for q in (0, 1, 1 + body // 2, body):
        for kind in ("garble", "silence"):
            out.append(("read_all-faulted", [dict(ra, fault=[q, kind])]))
    for n in (1, 2, 3):
        out.append(("value-given-up", [stop(va, n)]))
        out.append(("value-faulted", [dict(va, fault=[n - 1, "garble"])]))
    return out


def _shard_hist(arg):
    """Operations of one bank object one after the other on two units, ending in a read that is judged."""
    bankobj, seed, quick = arg
    res = Result()
    run = _runner(res)
    spec = bankspec(bankobj)
    if bankobj not in lib()["banks"]:
        return res
    top = spec["last"]
    keys = [r["key"] for r in spec["values"] if r["key"] in lib()["classes"]]
    if not keys:
        return res
    base = seed * 31 + spec["bank"] * 5
    n = 0
    for ki in range(1 if quick else min(3, len(keys))):
        key = keys[(seed + ki * 7) % len(keys)]
        for name, pre in hist_prefixes(top, key, quick):
            finals = []
            for X in (0, 1):
                finals.append({"op": "read_all", "unit": X, "use_latch": True, "drift": True})
            finals.append({"op": "read_all", "unit": n % 2, "use_latch": False})
            finals.append({"op": "value", "unit": (n + 1) % 2, "key": keys[(n + ki) % len(keys)]})
            if not quick:
                finals.append({"op": "read_all", "unit": (n + 1) % 2, "use_latch": False})
                finals.append({"op": "value", "unit": n % 2, "key": key})
            for fin in finals:
                n += 1
                if fin["op"] == "read_all" and n % 3 == 0:
                    fin = dict(fin, spell=SPELL_STYLES[(n // 3 + seed) % len(SPELL_STYLES)])
                # every other history: both units answer to the same address, in the same form (two DALI lines)
                units = [_unit(ADDRS[(n + (i if n % 2 else 0) + n // 3) % 3], (seed + spec["bank"] + (5 * i if n % 2 else 0)) % 64,
                               ["prng", base + 9000 + i], top if (n + i) % 7 else max(3, top - 1 - n % 3),
                               lock=LOCKS[(n + i) % 3]) for i in range(2)]
                run(_hist_case(bankobj, units, pre + [fin]), "history:" + name)
    # the query helpers (is_locked, last_address, is_addressable, is_locked of a value), judged against the unit's
    # memory: every value x lock byte x last accessible locations around the value / header holes; as the first
    # operations of the bank object's life or after latch / a whole-bank read with a spelled option
    for ki, key in enumerate(keys):
        row = all_rows()[key]
        hi = max(row["locs"])
        settings = [(top, []), (hi, []), (max(0, hi - 1), []), (min(0xFE, hi + 1), []), (1, []), (top, [2]), (top, [0]),
                    (None, []), (0xFE, [])]
        for si, (last, holes) in enumerate(settings):
            for li, lock in enumerate(LOCKS):
                if quick and (ki + si + li + seed) % 2:
                    continue
                n += 1
                qs = [{"op": "is_locked", "unit": 0}, {"op": "last_address", "unit": 0},
                      {"op": "is_addressable", "unit": 0, "key": key}, {"op": "value_is_locked", "unit": 0, "key": key}]
                qs = qs[n % 4:] + qs[:n % 4]
                pre = []
                if n % 5 == 0:
                    pre = [{"op": "latch", "unit": 0}]
                elif n % 5 == 1:
                    pre = [{"op": "read_all", "unit": 0, "use_latch": bool(n % 2), "spell": SPELL_STYLES[n % len(SPELL_STYLES)]}]
                run(_hist_case(bankobj, [_unit(ADDRS[n % 3], (seed + spec["bank"] + n) % 64, ["prng", base + 9500 + ki], last,
                                               holes, lock)], pre + qs), "history:queries-judged")
    res.sample(_hist_case(bankobj, [_unit("gear", 3, ["prng", 1], top), _unit("gear", 3, ["prng", 2], top)],
                          [{"op": "latch", "unit": 0}, {"op": "read_all", "unit": 1, "use_latch": True, "drift": True}]),
               cls="history")
    return res


def _shard_family(arg):
    """The generated family of a program's own declarations, value by value: last accessible location at and right below
    every location of the value (and 0, 1, 2, 0xfe), single holes, structured images, byte-position boundary patterns /
    text images, one fault at every read index."""
    keys, seed, quick = arg
    res = Result()
    run = _runner(res)
    F = load_family(seed)
    fam = F["fam"]
    decl_of = {"%s.%s" % (d["bankobj"], d["name"]): d for d in fam["decls"]}
    for ki, key in enumerate(keys):
        row = all_rows()[key]
        if key in F["errors"] or key not in lib()["classes"]:
            res.count()
            res.violation("C09:declared-by-program:declaration-refused", {"kind": "value", "key": key, "addr": "gear", "short": 0,
                                                                         "image": "ff", "last": 0xFE, "holes": [], "lock": 0xFF, "fault": None},
                          "a legal declaration of the generated family cannot be made: %s" % F["errors"].get(key, "no class"))
            continue
        for x in RM.family_features(fam, decl_of[key]):
            res.label("declared:" + x)
        locs = row["locs"]
        j0 = seed * 7 + 11 * ki + row["first"]
        short = j0 % 64
        image = ["prng", seed * 131 + 1000 + ki]
        lasts = sorted({0, 1, 2, 0xFE, min(0xFE, max(locs) + 1)} | set(locs) | {a - 1 for a in locs})
        for last in lasts:
            run(_value_case(key, ADDRS[(last + j0) % 3], short, image, last, lock=LOCKS[(last + ki) % 3]), "declared-value:last-sweep")
        for last in sorted({0xFE, max(locs)}):
            for h in sorted(set(locs) | {0, 1, 2}):
                run(_value_case(key, ADDRS[(h + j0) % 3], short, image, last, holes=[h]), "declared-value:single-hole")
        for ii, img in enumerate(IMAGES + (["prng", seed * 131 + 5000 + ki], ["prng", seed * 131 + 9000 + ki])):
            run(_value_case(key, ADDRS[(ii + j0) % 3], short, img, 0xFE if ii % 2 else max(locs), lock=LOCKS[ii % 3]),
                "declared-value:image")
        if row["kind"] == "string":
            n = len(locs)
            for b in TEXT_BYTES:
                for pos in sorted(set(range(n)) if n <= 4 else {0, 1, n // 2, n - 2, n - 1}) + ["all"]:
                    for ti, tail in enumerate(("ascii", "high") if b == 0 and pos != "all" else ("ascii",)):
                        k = (pos if pos != "all" else 1) + b + ti + j0
                        run(_value_case(key, ADDRS[k % 3], short, ["text", b, pos, tail], 0xFE, lock=LOCKS[k % 3]),
                            "declared-value:string-image")
        if row in edge_rows(row["bankobj"]):
            cnt = edge_count(row)
            step = 1 if cnt <= 48 or not quick else 3
            for k in range((seed + ki) % step, cnt, step):
                j = k + j0
                run(_value_case(key, ADDRS[j % 3], short, ["edge", k], 0xFE if j % 4 else max(locs), lock=LOCKS[j % 3]),
                    "declared-value:byte-position-edges")
        for q in range(len(locs) + 1):
            for kind in ("silence", "garble"):
                addr = ADDRS[(q + j0) % 3]
                run(_value_case(key, addr, short, image, 0xFE, fault=[q, kind]), "declared-value:fault")
                if len(locs) > 1:
                    run(_value_case(key, addr, short, image, 0xFE, holes=[locs[(q + ki) % len(locs)]], fault=[q, kind]),
                        "declared-value:fault+hole")
    return res


def _shard_family_bank(arg):
    """Whole-bank reads of one bank of the generated family."""
    bankobj, seed, quick = arg
    res = Result()
    run = _runner(res)
    F = load_family(seed)
    if bankobj not in lib()["banks"]:
        res.count()
        res.violation("C09:declared-by-program:declaration-refused", _bank_case(bankobj, "gear", 0, "ff", 0xFE),
                      "a bank of the generated family cannot be declared: %s" % F["errors"].get(bankobj))
        return res
    spec = bankspec(bankobj)
    top = spec["last"]
    declared = sorted({a for r in spec["values"] for a in r["locs"]})
    image = ["prng", seed * 17 + 300 + spec["bank"]]
    short = (seed + spec["bank"]) % 64
    latches = (True, False)
    res.label("declared-bank:%s%s" % ("lock" if spec["has_lock"] else "no-lock", "+latch" if spec["has_latch"] else ""))
    lasts = sorted({0, 1, 2, 3, top, min(0xFE, top + 1), 0xFE} | set(declared) | {a - 1 for a in declared})
    if quick and len(lasts) > 40:
        keep = {0, 1, 2, 3, top, 0xFE} | {a for r in spec["values"] for a in (r["locs"][0], r["locs"][0] - 1, max(r["locs"]), max(r["locs"]) - 1)}
        lasts = [x for x in lasts if x in keep or (x + seed) % 3 == 0]
    for last in lasts:
        for li, use_latch in enumerate(latches):
            run(_bank_case(bankobj, ADDRS[(last + li + seed) % 3], short, image, last, lock=LOCKS[(last + li) % len(LOCKS)],
                           use_latch=use_latch, drift=use_latch), "declared-bank:last-sweep")
    for h in [0, 1, 2] + declared:
        for li, use_latch in enumerate(latches):
            if quick and h > 2 and (h + li + seed) % 2:
                continue
            run(_bank_case(bankobj, ADDRS[(h + li) % 3], short, image, top, holes=[h], use_latch=use_latch, drift=use_latch),
                "declared-bank:single-hole")
    for ii, img in enumerate(IMAGES):
        for use_latch in latches:
            run(_bank_case(bankobj, ADDRS[(ii + seed) % 3], short, img, top, use_latch=use_latch), "declared-bank:image")
    if string_rows(bankobj):
        for bi, b in enumerate(TEXT_BYTES):
            for pi, pos in enumerate((0, 1, -1, "all")):
                k = bi + pi + seed
                run(_bank_case(bankobj, ADDRS[k % 3], short, ["text", b, pos, "high" if b == 0 and pos != "all" and k % 2 else "ascii"], top,
                               use_latch=bool(k & 1), drift=bool(k & 1)), "declared-bank:string-image")
    cnt = max([edge_count(r) for r in edge_rows(bankobj)] or [0])
    step = 4 if quick else 1
    for k in range(seed % step, cnt, step):
        use_latch = bool((k + seed) & 1)
        run(_bank_case(bankobj, ADDRS[(k + seed) % 3], short, ["edge", k], top, lock=LOCKS[k % len(LOCKS)], use_latch=use_latch,
                       drift=use_latch and k % 8 < 4), "declared-bank:byte-position-edges")
    # a fault at the read of the header and of every declared location (read #0 is location 0x00, read #q location q + 2)
    qs = [0] + [a - 2 for a in declared if a <= top]
    if quick and len(qs) > 24:
        qs = [q for i, q in enumerate(qs) if (i + seed) % 3 == 0 or i < 2]
    for q in qs:
        for kind in ("silence", "garble"):
            for li, use_latch in enumerate(latches):
                run(_bank_case(bankobj, ADDRS[(q + li) % 3], short, image, top, use_latch=use_latch, drift=use_latch, fault=[q, kind]),
                    "declared-bank:fault")
    return res


def _shard_family_hyp(arg):
    seed, fam_seed, n = arg
    res = Result()
    F = load_family(fam_seed)
    keys = [k for k in F["keys"] if k in lib()["classes"]]
    banks = [b for b in F["banks"] if b in lib()["banks"]]
    if not keys or not banks:
        return res

    def classify(case):
        return ["hyp:declared-by-program:" + case["kind"]] + features(case)
    hyp.search(value_case_st(keys), run_case, res, n, seed, ID, nontrivial=is_nontrivial, classify=classify)
    hyp.search(bank_case_st(banks), run_case, res, max(1, n // 4), seed + 1, ID, nontrivial=is_nontrivial, classify=classify)
    return res


def _shard_canon(arg):
    """Deterministic demonstration cases: the only place where a confirmed defect is reported from."""
    res = Result()
    run = _runner(res, strip=False)
    run(_bank_case("BANK_202", "gear", 0, "00", 0x0F, use_latch=True), "canonical")
    run(_bank_case("BANK_205", "device", 0, "00", 0x1C, use_latch=True), "canonical")
    res.sample(_bank_case("BANK_202", "gear", 0, "00", 0x0F, use_latch=True), cls="whole bank")
    L = lib()
    res.extra["value_classes_matched"] = len(L["classes"])
    res.extra["value_classes_unmatched"] = list(L["unmatched_classes"])
    res.extra["banks_unmatched"] = list(L["unmatched_banks"])
    res.extra["reference_rows_without_class"] = list(L["rows_without_class"])
    return res


# ---------------------------------------------------------------------- Hypothesis ----
def image_st():
    return st.one_of(st.sampled_from(IMAGES), st.tuples(st.just("prng"), st.integers(0, 1 << 20)).map(list),
                     st.tuples(st.just("prng"), st.integers(0, 15)).map(list),
                     st.binary(min_size=NLOC, max_size=NLOC).map(lambda b: ["hex", b.hex()]),
                     st.tuples(st.just("text"), st.one_of(st.sampled_from(TEXT_BYTES), st.integers(0, 255)),
                               st.one_of(st.integers(-3, 70), st.just("all")), st.sampled_from(["ascii", "high"])).map(list),
                     st.tuples(st.just("edge"), st.integers(0, 400)).map(list))


_SPELL_ST = st.one_of(st.none(), st.none(), st.sampled_from(SPELL_STYLES))


def spell_st():
    """Mostly the bool itself, else one of the styles in which callers spell a boolean option."""
    return _SPELL_ST


@st.composite
def value_case_st(draw, keys):
    key = draw(st.sampled_from(keys))
    row = all_rows()[key]
    locs = row["locs"]
    near = sorted(set(min(254, max(0, a + d)) for a in (min(locs), max(locs)) for d in (-2, -1, 0, 1)))
    last = draw(st.one_of(st.integers(0, 254), st.sampled_from(near), st.just(0xFE), st.none()))
    holes = draw(st.one_of(st.just([]), st.lists(st.sampled_from(locs), max_size=3, unique=True),
                           st.lists(st.integers(0, 254), max_size=6, unique=True)))
    fault = draw(st.one_of(st.none(), st.tuples(st.integers(0, len(locs)), st.sampled_from(["silence", "garble"])).map(list)))
    return _value_case(key, draw(st.sampled_from(ADDRS)), draw(st.integers(0, 63)), draw(image_st()), last,
                       sorted(holes), draw(st.sampled_from(LOCKS)), fault)


@st.composite
def bank_case_st(draw, banks):
    b = draw(st.sampled_from(banks))
    spec = bankspec(b)
    top = spec["last"]
    last = draw(st.one_of(st.integers(0, 254), st.integers(0, min(254, top + 2)), st.just(top), st.none()))
    n = top if last is None else last
    holes = draw(st.one_of(st.just([]), st.lists(st.integers(0, max(3, min(254, n))), max_size=4, unique=True),
                           st.lists(st.integers(0, 254), max_size=10, unique=True)))
    if 3 <= n <= 40 and draw(st.integers(0, 11)) == 0:
        # nothing (or next to nothing) beyond the header answers
        keep = draw(st.lists(st.integers(3, n), max_size=1))
        holes = [a for a in range(3, n + 1) if a not in keep]
    fault = draw(st.one_of(st.none(), st.tuples(st.integers(0, max(1, n)), st.sampled_from(["silence", "garble"])).map(list)))
    return _bank_case(b, draw(st.sampled_from(ADDRS)), draw(st.integers(0, 63)), draw(image_st()), last, sorted(holes),
                      draw(st.sampled_from(LOCKS)), draw(st.booleans()), draw(st.booleans()), fault, draw(spell_st()))


@st.composite
def inter_case_st(draw, keys_by_bank, banks):
    b = draw(st.sampled_from(banks))
    n = draw(st.sampled_from([2, 2, 2, 3]))
    jobs = []
    for i in range(n):
        bb = b if draw(st.integers(0, 9)) < 8 else draw(st.sampled_from(banks))      # mostly the same bank object
        if keys_by_bank.get(bb) and draw(st.integers(0, 3)) == 0:
            jobs.append(draw(value_case_st(keys_by_bank[bb])))
        else:
            jobs.append(draw(bank_case_st([bb])))
        if draw(st.integers(0, 3)):
            jobs[-1]["fault"] = None          # mostly fault-free
    sched = draw(st.lists(st.one_of(st.integers(0, n - 1),
                                    st.tuples(st.integers(0, n - 1), st.integers(1, 40)).map(list),
                                    st.tuples(st.integers(0, n - 1), st.integers(1, 300)).map(list)), max_size=12))
    cycle = draw(st.one_of(st.just([]), st.lists(st.integers(0, n - 1), min_size=1, max_size=6)))
    return _inter_case(jobs, sched, cycle)


@st.composite
def history_case_st(draw, keys_by_bank, banks):
    b = draw(st.sampled_from(banks))
    spec = bankspec(b)
    top = spec["last"]
    keys = keys_by_bank.get(b) or []
    nu = draw(st.sampled_from([1, 2, 2, 2, 3]))
    units = []
    for i in range(nu):
        last = draw(st.one_of(st.just(top), st.just(top), st.none(), st.integers(2, min(254, top + 2))))
        holes = draw(st.one_of(st.just([]), st.just([]), st.lists(st.integers(0, max(3, top)), max_size=2, unique=True)))
        units.append(_unit(draw(st.sampled_from(ADDRS)), draw(st.integers(0, 63)), draw(image_st()), last, sorted(holes),
                           draw(st.sampled_from(LOCKS))))
        if i and draw(st.booleans()):
            # the same address in the same form on another DALI line
            units[-1]["addr"], units[-1]["short"] = units[0]["addr"], units[0]["short"]
    names = ["latch", "latch", "latch", "unlatch", "unlatch", "read_all", "read_all", "other-controller", "is_locked",
             "last_address"] + (["value", "value", "is_addressable", "value_is_locked"] if keys else [])

    def one(final):
        name = draw(st.sampled_from(["read_all", "read_all", "read_all", "value"] if final and keys else ["read_all"])) \
            if final else draw(st.sampled_from(names))
        o = {"op": name, "unit": draw(st.integers(0, nu - 1))}
        if name in ("value", "is_addressable", "value_is_locked"):
            o["key"] = draw(st.sampled_from(keys))
        if name == "read_all":
            o["use_latch"] = draw(st.sampled_from([True, True, False]))
            o["drift"] = draw(st.booleans())
            style = draw(spell_st())
            if style is not None:
                o["spell"] = style
        if name == "other-controller":
            o["lock"] = draw(st.sampled_from([None, None, 0xFF, 0x55, 0xAA, 0x00]))
        if name in READ_OPS and draw(st.integers(0, 3)) == 0:
            o["fault"] = [draw(st.integers(0, max(1, top))), draw(st.sampled_from(["silence", "garble"]))]
        if not final and name != "other-controller" and draw(st.integers(0, 2)) == 0:
            o["stop"] = [draw(st.one_of(st.integers(0, 8), st.integers(0, top + 10))), draw(st.sampled_from(["close", "throw", "drop"]))]
        return o

    ops = [one(False) for _ in range(draw(st.integers(1, 6)))]
    ops.append(one(True))
    return _hist_case(b, units, ops)


def _shard_hyp(arg):
    seed, n = arg
    res = Result()
    keys = [k for k in sorted(lib()["classes"]) if RM.family_of_key(k) is None]     # (the family has a search of its own)
    banks = [b for b in bank_names() if b in lib()["banks"]]

    def filtered(case):
        vs = []
        for sig, msg in run_case(case):
            if sig in KNOWN_DEFECT_SIGS:
                res.excluded[sig] += 1
            else:
                vs.append((sig, msg))
        return vs

    def classify(case):
        return ["hyp:" + case["kind"]] + features(case)

    hyp.search(value_case_st(keys), filtered, res, n, seed, ID, nontrivial=is_nontrivial, classify=classify,
               extra_rounds_budget_s=15.0)
    hyp.search(bank_case_st(banks), filtered, res, max(1, n // 3), seed + 1, ID, nontrivial=is_nontrivial,
               classify=classify, extra_rounds_budget_s=15.0)
    by_bank = {}
    for k in keys:
        by_bank.setdefault(all_rows()[k]["bankobj"], []).append(k)
    hyp.search(inter_case_st(by_bank, banks), filtered, res, max(1, n // 6), seed + 2, ID, nontrivial=is_nontrivial,
               classify=classify, extra_rounds_budget_s=15.0)
    hyp.search(history_case_st(by_bank, banks), filtered, res, max(1, n // 8 if n <= 1000 else n // 12), seed + 3, ID, nontrivial=is_nontrivial,
               classify=classify, extra_rounds_budget_s=15.0)
    return res


def run(ctx):
    q, s = ctx.quick, ctx.seed
    keys = [k for k in sorted(all_rows()) if RM.family_of_key(k) is None]
    ctx.pmap(_shard_canon, [0], nproc=1)
    shards = []
    per = 3 if q else 2
    for i in range(0, len(keys), per):
        shards.append((_shard_values, (keys[i:i + per], s, q)))
    for b in bank_names():
        if q:
            lasts = [x for x in range(NLOC) if x <= bankspec(b)["last"] + 3 or (x + s) % 8 == 0]
            shards.append((_shard_banks, (b, lasts, s, q, 0)))
        else:
            shards.append((_shard_banks, (b, list(range(0, 128)), s, q, 0)))
            shards.append((_shard_banks, (b, list(range(128, NLOC)), s, q, 1)))
    for b in bank_names():
        shards.append((_shard_inter, (b, s, q)))
    for b in bank_names():
        shards.append((_shard_hist, (b, s, q)))
    for k in range(16):
        shards.append((_shard_hyp, (s * 1000 + k, 600 if q else 6000)))
    # a program's own declarations: the generated family of this seed (declared before the workers are forked)
    F = load_family(s)
    per = 6 if q else 3
    for i in range(0, len(F["keys"]), per):
        shards.append((_shard_family, (F["keys"][i:i + per], s, q)))
    for b in sorted(RM.family(s)["banks"]):
        shards.append((_shard_family_bank, (b, s, q)))
    for k in range(4 if q else 16):
        shards.append((_shard_family_hyp, (s * 1000 + 500 + k, s, 150 if q else 3000)))
    ctx.pmap(_dispatch, shards)
    ctx.result.exhaustive = False
    ctx.result.extra["declared_by_program"] = {
        "family_seed": s, "banks": len(F["banks"]), "values": len(F["keys"]), "declaration_errors": dict(F["errors"]),
        "features_required_in_every_family": list(RM.FAMILY_FEATURES)}


def _dispatch(packed):
    fn, arg = packed
    return fn(arg)
