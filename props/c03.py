"""C03 - emitted frames and command flags conform to the IEC 62386 tables.

Driven from the TABLE side: for every row of harness/ref_tables.py (one per concrete command class of
the library, transcribed by hand from IEC 62386-102/-103/-202/-205/-206/-207/-209/-301/-303/-304) and
every legal destination / instance byte / parameter:

  (a) construct the library object named by the row; `obj.frame.as_integer` and `len(obj.frame)` must
      equal what the reference encoder (plain integer arithmetic) computes;
  (b) decode the reference frame with `dali.command.from_frame(ForwardFrame(bits, value),
      devicetype=row.devicetype)`; the result must be an instance of exactly the class the row names;
  (c) once per row: `sendtwice`, answer kind (none / yes-no / 8-bit value) and `devicetype` of the class
      must equal the row.

A row whose class no longer exists is a violation; library classes without a row are listed in the
evidence (`untabled`).
"""
import importlib

from harness import ref_tables as T
from harness.runner import Result

ID = "C03"
OPTIMIZED_PASS = True      # the whole search runs once more under python -OO (harness/runner.py)
LEVEL = "exploration"
RULE = ("enumeration from the reference table: (row, legal argument tuple) with the tuple ranging over every "
        "destination x instance byte x parameter value the standard allows for the row's addressing form "
        "(events: every source scheme x address/number/group x event information); thorough tier = the "
        "complete product for every row, quick tier = complete for rows with at most QUICK_COMPLETE tuples, "
        "otherwise all-axes-on-a-boundary tuples plus a seeded stratified sample; every case is a legal "
        "command instance (non-trivial) and cases are distinct by construction (distinct indices); plus one "
        "flags case per row")
ASSUMPTIONS = [
    "the reference table is a hand transcription from memory of the IEC texts (not available in the sandbox); "
    "rows marked 'pinned' carry at least one field copied from the library and only detect changes",
    "legal instance bytes of an instance command are instance number / instance group / instance type / "
    "instance broadcast (97 values); 0xFE is the device form, feature addressing belongs to feature commands",
    "16-bit special commands with a short-address parameter: legal values are 0..63 and MASK "
    "(INITIALISE: all, unaddressed, 0..63); 24-bit special commands take any 8-bit data as the library does",
    "an event in the device/instance scheme carries no instance type: the reference frame is decoded with a "
    "dev_inst_map stub that returns the row's instance type for every (short address, instance number)",
    "answer kind of a class: response is None -> none; subclass of YesNoResponse -> yesno; any other "
    "Response subclass -> value",
    "decoding is only required to yield the class of the row's name; equality of the decoded object's "
    "frame is C01/C02's business",
]

QUICK_COMPLETE = 70000    # rows with at most this many argument tuples are enumerated completely in quick
QUICK_SAMPLE = 150000     # strata for larger rows in quick (only the 10-bit light event: 2.26 M tuples)
CHUNK = 24000             # indices per shard


def _load():
    import dali.gear.general, dali.gear.led, dali.gear.emergency, dali.gear.incandescent  # noqa
    import dali.gear.converter, dali.gear.colour  # noqa
    import dali.device.general, dali.device.pushbutton, dali.device.occupancy, dali.device.light  # noqa
    from dali import command, frame, address
    return command, frame, address


_SHORT = {}


def short_name(row):
    """Class name, qualified by its module's last component when the bare name is ambiguous in the table."""
    if not _SHORT:
        count = {}
        for r in T.ROWS:
            count[r.cls] = count.get(r.cls, 0) + 1
        for r in T.ROWS:
            _SHORT[r.name] = r.cls if count[r.cls] == 1 else r.module.rsplit(".", 1)[1] + "." + r.cls
    return _SHORT[row.name]


def lib_class(row):
    try:
        mod = importlib.import_module(row.module)
    except ImportError:
        return None
    cls = mod.__dict__.get(row.cls)
    return cls if isinstance(cls, type) else None


class _TypeMap:
    """dev_inst_map stub: every (short address, instance number) has the given instance type."""

    def __init__(self, t):
        self.t = t

    def get_type(self, *, short_address, instance_number):
        return self.t


def _gear_dest(address, d):
    k = d[0]
    if k == "short":
        return address.GearShort(d[1])
    if k == "group":
        return address.GearGroup(d[1])
    if k == "unaddressed":
        return address.GearBroadcastUnaddressed()
    if k == "broadcast":
        return address.GearBroadcast()
    raise ValueError(d)


def _device_dest(address, d):
    k = d[0]
    if k == "short":
        return address.DeviceShort(d[1])
    if k == "group":
        return address.DeviceGroup(d[1])
    if k == "unaddressed":
        return address.DeviceBroadcastUnaddressed()
    if k == "broadcast":
        return address.DeviceBroadcast()
    raise ValueError(d)


def _instance(address, byte):
    kind, n = T.instance_kind(byte)
    if kind == "number":
        return address.InstanceNumber(n)
    if kind == "group":
        return address.InstanceGroup(n)
    if kind == "type":
        return address.InstanceType(n)
    return address.InstanceBroadcast()


class _Flag:
    """An object with a truth value (a numpy/ctypes bool, a config flag ...)."""

    def __init__(self, v):
        self.v = v

    def __bool__(self):
        return self.v

    def __repr__(self):
        return "_Flag(%r)" % self.v


TRUTHY = [1, 2, "yes", _Flag(True), 1.0, [0]]
FALSY = [0, None, "", _Flag(False), 0.0, []]


def construct(row, cls, args, address, variant=0):
    """Build the library object for a legal argument tuple the way a user of the library would.
    variant >= 2: every yes/no option is handed over as a truthy / falsy value that is not a bool (expectation: the
    frame the standard gives for True / False - Python's truth value is what a yes/no option means)."""
    f = row.form
    yes = TRUTHY[(variant - 2) % len(TRUTHY)] if variant >= 2 else True
    no = FALSY[(variant - 2) % len(FALSY)] if variant >= 2 else False
    if f == "gear-std":
        d = _gear_dest(address, args["dest"])
        return cls(d, args["param"]) if row.param == "nibble" else cls(d)
    if f == "dapc":
        return cls(_gear_dest(address, args["dest"]), args["param"])
    if f == "gear-special":
        p = args.get("param")
        if row.param == "none":
            return cls()
        if row.param == "initialise":
            if p == "ALL":
                return cls(yes) if variant % 2 else cls(broadcast=yes)
            if p == "UNADDRESSED":
                return cls(broadcast=no) if variant >= 2 else cls()
            if variant >= 2:
                return cls(no, p) if variant % 2 else cls(broadcast=no, address=p)
            return cls(address=p)
        return cls(p)
    if f == "dev-std":
        return cls(_device_dest(address, args["dest"]))
    if f == "dev-inst":
        return cls(_device_dest(address, args["dest"]), _instance(address, args["inst"]))
    if f == "dev-special":
        if row.param == "byte2":
            return cls(args["p1"], args["p2"])
        if row.param == "none":
            return cls()
        return cls(args["param"])
    if f == "event":
        s = args["scheme"]
        kw = {}
        if s in ("device", "device_instance"):
            kw["short_address"] = args["short"]
        if s in ("instance", "device_instance"):
            kw["instance_number"] = args["number"]
        if s == "device_group":
            kw["device_group"] = args["group"]
        if s == "instance_group":
            kw["instance_group"] = args["group"]
        info = args["info"]
        if row.param == "info-flags4":
            if variant >= 2:
                kw["data"] = cls.EventData(movement=yes if info & 1 else no, occupied=yes if info & 2 else no,
                                           repeat=yes if info & 4 else no,
                                           sensor_type="movement" if info & 8 else "presence")
            elif variant == 1:
                kw["data"] = cls.EventData(movement=bool(info & 1), occupied=bool(info & 2),
                                           repeat=bool(info & 4),
                                           sensor_type="movement" if info & 8 else "presence")
            else:
                kw["data"] = info
        elif row.param == "info-value10":
            kw["data"] = info
        return cls(**kw)
    raise ValueError(f)


def _dest_kind(row, args):
    return ("gear-" if row.bits == 16 else "device-") + args["dest"][0]


def _mismatch_sigs(row, args, got, exp):
    """Attribute differing bits to a root cause: the address codec, the instance codec, the event
    scheme layout, or the command class itself."""
    diff = got ^ exp
    masks = T.field_masks(row, args)
    name = short_name(row)
    sigs = []
    for field, m in masks.items():
        if not diff & m:
            continue
        if field == "address":
            sigs.append("C03:address-bits:" + _dest_kind(row, args))
        elif field == "instance":
            sigs.append("C03:instance-bits:" + T.instance_kind(args["inst"])[0])
        elif field == "selector":
            sigs.append("C03:selector-bit:" + row.form)
        elif field == "marker":
            sigs.append("C03:device-marker-bits:" + row.form)
        elif field == "event-scheme":
            sigs.append("C03:event-scheme-bits:" + args["scheme"])
        elif field == "event-type":
            sigs.append("C03:event-instance-type:" + name)
        elif field == "event-info":
            sigs.append("C03:event-info:" + name)
        else:
            sigs.append("C03:frame-bits:" + name)
    return sigs or ["C03:frame-bits:" + name]


def _devicetype_sig(row, cls):
    """A wrong device type is usually set on a per-part base class: name the class that defines it."""
    for k in cls.__mro__:
        if "devicetype" in k.__dict__:
            if k.__module__ == row.module:
                return "C03:devicetype:%s.%s" % (row.module.rsplit(".", 1)[1], k.__name__)
            break
    return "C03:devicetype:" + short_name(row)


def check_frame(row, cls, args, mods):
    command, frame, address = mods
    name = short_name(row)
    exp = T.encode(row, args)
    where = "%s %r" % (row.name, args)
    out = []
    # (a) construct -> frame
    variants = (0, 1, 2 + exp % 6, 2 + (exp // 6 + 3) % 6) if row.param == "info-flags4" else \
        (0, 2, 3, 4, 5, 6, 7) if row.param == "initialise" else (0,)
    for variant in variants:
        try:
            obj = construct(row, cls, args, address, variant)
            got = obj.frame.as_integer
            bits = len(obj.frame)
        except Exception as e:  # noqa: a legal argument tuple must be accepted
            out.append(("C03:construct-raised:%s:%s" % (name, type(e).__name__), "%s%s: %r"
                        % (where, " (yes/no options as %r/%r)" % (TRUTHY[(variant - 2) % 6], FALSY[(variant - 2) % 6])
                           if variant >= 2 else "", e)))
            continue
        if bits != row.bits:
            out.append(("C03:frame-size:" + name, "%s: frame has %d bits, standard says %d" % (where, bits, row.bits)))
        elif got != exp:
            for sig in _mismatch_sigs(row, args, got, exp):
                if variant >= 2:
                    sig += ":yes-no-option-as-non-bool"
                out.append((sig, "%s%s: library emits %#0*x, standard says %#0*x"
                            % (where, " (yes/no options as %r/%r)" % (TRUTHY[(variant - 2) % 6], FALSY[(variant - 2) % 6])
                               if variant >= 2 else "", row.bits // 4 + 2, got, row.bits // 4 + 2, exp)))
    # (b) reference frame -> class
    try:
        kw = {}
        if row.form == "event" and args["scheme"] == "device_instance":
            kw["dev_inst_map"] = _TypeMap(row.instance_type)
        dec = command.from_frame(frame.ForwardFrame(row.bits, exp), devicetype=row.devicetype, **kw)
    except Exception as e:  # noqa
        out.append(("C03:decode-raised:%s:%s" % (name, type(e).__name__),
                    "%s: from_frame(%#x) raised %r" % (where, exp, e)))
    else:
        if type(dec) is not cls and cls.devicetype != row.devicetype:
            # consequence of a wrong device type on the class: same root cause as the flags case reports
            out.append((_devicetype_sig(row, cls), "%s: standard frame %#0*x after ENABLE DEVICE TYPE %d decodes to "
                        "%s.%s; the class carries devicetype %r" % (where, row.bits // 4 + 2, exp, row.devicetype,
                                                                    type(dec).__module__, type(dec).__name__,
                                                                    cls.devicetype)))
        elif type(dec) is not cls:
            out.append(("C03:decode-name:" + name, "%s: standard frame %#0*x (devicetype %d) decodes to %s.%s"
                        % (where, row.bits // 4 + 2, exp, row.devicetype,
                           type(dec).__module__, type(dec).__name__)))
        # (b2) the class's own decoder (the entry point the dispatcher itself uses, and the documented hook: "answers None
        # for a frame that is not mine") recognises the standard's frame for this command as its own
        if type(dec) is cls and hasattr(cls, "from_frame"):
            try:
                own = cls.from_frame(frame.ForwardFrame(row.bits, exp), devicetype=row.devicetype, **kw)
            except TypeError:
                own = cls.from_frame(frame.ForwardFrame(row.bits, exp))
            except Exception as e:  # noqa
                own = e
            if type(own) is not cls or own.frame.as_integer != exp:
                out.append(("C03:own-decoder:" + name, "%s: %s.from_frame() of the standard frame %#0*x gives %r, the "
                            "dispatcher gives %s" % (where, cls.__name__, row.bits // 4 + 2, exp, own, type(dec).__name__)))
        # (c) the command tables of parts 103/301/303/304 do not depend on an instance map: a bus watcher that hands its
        # dev_inst_map to every decode (the option exists for device/instance EVENTS) gets the same class for a command
        if row.bits == 24 and row.form != "event":
            for label, m in _command_maps(row, args, exp):
                try:
                    d2 = command.from_frame(frame.ForwardFrame(row.bits, exp), devicetype=row.devicetype, dev_inst_map=m)
                except Exception as e:  # noqa
                    out.append(("C03:decode-with-map-raised:%s:%s" % (name, type(e).__name__),
                                "%s: from_frame(%#x, dev_inst_map=<%s>) raised %r" % (where, exp, label, e)))
                    continue
                if type(d2) is not type(dec):
                    out.append(("C03:decode-name-depends-on-map%s:%s" % ("" if "own part" in label or "empty" in label or "None" in label
                                                                          else "-of-another-instance-type", name),
                                "%s: standard frame %#08x decodes to %s without a map and to %s with dev_inst_map=<%s>"
                                % (where, exp, type(dec).__name__, type(d2).__name__, label)))
    return out


PART_TYPE = {"301": 1, "303": 3, "304": 4}


def _command_maps(row, args, exp):
    """Instance maps to decode a 24-bit COMMAND frame under: for an instance command addressed by short address +
    instance number one that knows the instance to be of the type whose part defines the command (any type for the
    part-103 rows), one that knows another type, an empty one - as stub and as the library's own mapper; for the
    other frames one of them in rotation on every fourth frame."""
    from dali.device.helpers import DeviceInstanceTypeMapper
    own = PART_TYPE.get(row.part, [1, 3, 4, 2, 0][exp % 5])
    other = [t for t in (1, 3, 4, 2, 0, 31) if t != own][exp % 5]
    addressed = row.form == "dev-inst" and args["dest"][0] == "short" and T.instance_kind(args["inst"])[0] == "number"
    if addressed:
        key = (args["dest"][1], T.instance_kind(args["inst"])[1])
        if exp % 2:
            return [("stub: type %d (own part)" % own, _TypeMap(own)), ("stub: type %d" % other, _TypeMap(other)),
                    ("empty mapper", DeviceInstanceTypeMapper())]
        mo = DeviceInstanceTypeMapper()
        mo.add_type(short_address=key[0], instance_number=key[1], instance_type=other)
        return [("mapper: {%r: %d} (own part)" % (key, own), DeviceInstanceTypeMapper({key: own})),
                ("mapper: {%r: %d}" % (key, other), mo), ("stub: None", _TypeMap(None))]
    if (exp >> 8) % 4 != exp % 4:
        return []
    k = (exp >> 3) % 3
    return [[("stub: type %d" % own, _TypeMap(own))], [("stub: type %d" % other, _TypeMap(other))],
            [("empty mapper", DeviceInstanceTypeMapper())]][k]


def answer_kind(command, cls):
    r = cls.response
    if r is None:
        return "none"
    if isinstance(r, type) and issubclass(r, command.YesNoResponse):
        return "yesno"
    if isinstance(r, type) and issubclass(r, command.Response):
        return "value"
    return "not-a-response-class:%r" % (r,)


def check_flags(row, cls, mods):
    command, frame, address = mods
    name = short_name(row)
    out = []
    if bool(cls.sendtwice) is not row.sendtwice or not isinstance(cls.sendtwice, bool):
        out.append(("C03:sendtwice:" + name, "%s: sendtwice is %r, standard says %r"
                    % (row.name, cls.sendtwice, row.sendtwice)))
    k = answer_kind(command, cls)
    if k != row.answer:
        out.append(("C03:answer-kind:" + name, "%s: answer kind is %s (response=%r), standard says %s"
                    % (row.name, k, cls.response, row.answer)))
    if cls.devicetype != row.devicetype:
        out.append((_devicetype_sig(row, cls), "%s: devicetype is %r, standard says %r"
                    % (row.name, cls.devicetype, row.devicetype)))
    if getattr(cls, "_framesize", None) != row.bits:
        out.append(("C03:frame-size:" + name, "%s: class frame size %r, standard says %d"
                    % (row.name, getattr(cls, "_framesize", None), row.bits)))
    # is_query of an instance must agree with "expects an answer"
    try:
        obj = construct(row, cls, T.args_at(row, 0), address)
        if bool(obj.is_query) is not (row.answer != "none"):
            out.append(("C03:answer-kind:" + name, "%s: is_query is %r, standard says answer %s"
                        % (row.name, obj.is_query, row.answer)))
    except Exception:  # noqa: reported by the frame cases
        pass
    return out


def run_case(case):
    """case: {"row": "module.Class", "op": "frame", "args": {...}} | {"row": ..., "op": "flags"}"""
    mods = _load()
    row = T.BY_NAME.get(case["row"])
    if row is None:
        raise ValueError("no such table row: %r" % (case["row"],))
    cls = lib_class(row)
    if cls is None:
        return [("C03:command-missing:" + short_name(row), "%s is in the standard's table but the library "
                 "has no such class" % row.name)]
    if case["op"] == "flags":
        if case.get("after_use"):
            decode_storm(mods)
            return [(sig + ":after-use", msg) for sig, msg in check_flags(row, cls, mods)]
        return check_flags(row, cls, mods)
    if case["op"] == "frame":
        return check_frame(row, cls, case["args"], mods)
    raise ValueError(case["op"])


# -------------------------------------------------------------- shards ----
def decode_storm(mods):
    """Use the library the way a bus monitor would before looking at the class flags: decode frames under every
    device type (implemented or not), with and without maps.  The flags of a command are class attributes that
    drivers act on (send twice, ENABLE DEVICE TYPE prefix); using the library must not change them."""
    command, frame, address = mods
    n = 0
    for dt in range(256):
        for hi in (0x01, 0x09, 0xFF, 0x85):
            for lo in (list(range(0xE0, 0x100)) + [0x00, 0x20, 0x90, 0xA7]) if dt not in (0, 1, 4, 5, 6, 8) else range(256):
                try:
                    command.from_frame(frame.ForwardFrame(16, (hi << 8) | lo), devicetype=dt)
                except Exception:  # noqa - judged by C01
                    pass
                n += 1
    for v in range(0, 1 << 24, 4099):
        try:
            command.from_frame(frame.ForwardFrame(24, v))
        except Exception:  # noqa
            pass
        n += 1
    return n


def _shard(arg):
    kind, name = arg[0], arg[1]
    res = Result()
    mods = _load()
    if kind == "private-subclasses":
        # dali.command._CommandTracker documents: "Commands that have names starting with '_' are treated as abstract
        # base classes that will never be instantiated because they do not correspond to a DALI frame."  An application
        # (or the library itself) deriving such a private helper from a concrete 16-bit command must not change what
        # the standard's frame decodes to.
        made = 0
        for row in T.ROWS:
            if row.bits != 16 or row.form not in ("gear-std", "gear-special"):
                continue
            cls = lib_class(row)
            if cls is None or made % 7:
                made += 1
                continue
            made += 1
            try:
                type("_VerifPrivate" + cls.__name__, (cls,), {"sendtwice": not cls.sendtwice, "response": None, "__module__": cls.__module__})
            except Exception as e:  # noqa
                res.violation("C03:private-subclass-raised:" + short_name(row), {"row": row.name, "op": "private-subclass"}, repr(e))
        n = 0
        for row in T.ROWS:
            cls = lib_class(row)
            if cls is None or row.bits != 16:
                continue
            for i in T.sample_indices(row, 6, 1):
                args = T.args_at(row, i)
                n += 1
                for sig, msg in check_frame(row, cls, args, mods):
                    res.violation(sig + ":after-private-subclass", {"row": row.name, "op": "frame", "args": args, "after_private_subclasses": True},
                                  msg + " (after underscore-named helper subclasses of concrete commands were defined)")
        res.count(n)
        res.nontrivial(n=n)
        res.label("after-private-subclasses", n)
        return res
    if kind == "flags-generic-first":
        # fresh interpreter: the first objects the program ever asks "do you expect an answer?" are generic ones (a frame
        # of a length no command has, unknown gear / device commands, an event); only then the commands of the tables
        from dali import command, frame
        asked = []
        for bits, v in ((25, 0x1FFFFFF), (25, 0), (16, 0xCB00), (24, 0x01FEF0), (24, 0xE1FE00), (24, 0x028401), (8, 0x55), (17, 3)):
            try:
                o = command.Command.from_frame(frame.ForwardFrame(bits, v))
                asked.append((type(o).__name__, bool(o.is_query), bool(o.sendtwice)))
            except Exception as e:  # noqa
                asked.append(("raised", type(e).__name__, None))
        res.extra["generic_objects_asked_first"] = asked
        for row in T.ROWS:
            cls = lib_class(row)
            if cls is None:
                continue
            case = {"row": row.name, "op": "flags", "generic_first": True}
            res.count()
            res.nontrivial()
            for sig, msg in check_flags(row, cls, mods):
                res.violation(sig + ":generic-objects-asked-first", case, msg + " (the first objects asked were %r)" % (asked[:3],))
        res.label("flags-generic-objects-asked-first", len(T.ROWS))
        return res
    if kind == "flags-after-use":
        n = decode_storm(mods)
        res.extra["decodes_before_flag_recheck"] = n
        for row in T.ROWS:
            cls = lib_class(row)
            if cls is None:
                continue
            case = {"row": row.name, "op": "flags", "after_use": True}
            res.count()
            res.nontrivial()
            for sig, msg in check_flags(row, cls, mods):
                res.violation(sig + ":after-use", case, msg + " (after %d decodes under all device types; the flags were "
                              "right on a freshly imported library)" % n)
        res.label("flags-after-use", len(T.ROWS))
        res.sample({"row": T.ROWS[0].name, "op": "flags", "after_use": True}, cls="flags after use")
        return res
    row = T.BY_NAME[name]
    cls = lib_class(row)
    if kind == "flags":
        case = {"row": name, "op": "flags"}
        res.count()
        res.nontrivial()
        for sig, msg in run_case(case):
            res.violation(sig, case, msg)
        res.label("flags")
        return res
    if cls is None:
        return res          # reported once by the flags shard of the row
    indices = range(arg[2], arg[3]) if kind == "range" else arg[2]
    n = 0
    for i in indices:
        args = T.args_at(row, i)
        n += 1
        for sig, msg in check_frame(row, cls, args, mods):
            res.violation(sig, {"row": name, "op": "frame", "args": args}, msg)
    res.count(n)
    res.nontrivial(n=n)
    res.label("form:" + row.form, n)
    res.label("part:" + row.part, n)
    res.label("trust:" + row.trust, n)
    if n:
        i0 = indices[len(indices) // 2]
        res.sample({"row": name, "op": "frame", "args": T.args_at(row, i0),
                    "reference_frame": "%#x" % T.encode(row, T.args_at(row, i0))}, cls=row.form)
    return res


def run(ctx):
    command, frame, address = _load()
    shards = []
    complete_rows = 0
    for row in T.ROWS:
        shards.append(("flags", row.name))
        size = T.space_size(row)
        if not ctx.quick or size <= QUICK_COMPLETE:
            complete_rows += 1
            for lo in range(0, size, CHUNK):
                shards.append(("range", row.name, lo, min(size, lo + CHUNK)))
        else:
            idx = T.sample_indices(row, QUICK_SAMPLE, ctx.seed)
            for lo in range(0, len(idx), CHUNK):
                shards.append(("list", row.name, idx[lo:lo + CHUNK]))
    # biggest shards first so the pool drains evenly
    shards.sort(key=lambda s: -(s[3] - s[2] if s[0] == "range" else len(s[2]) if s[0] == "list" else 0))
    shards.insert(0, ("flags-after-use", None))
    shards.insert(1, ("private-subclasses", None))
    ctx.pmap(_shard, shards)
    ctx.pmap(_shard, [("flags-generic-first", None)], fresh=True)
    res = ctx.result
    res.exhaustive = not ctx.quick
    tabled = set(T.BY_NAME)
    res.extra["untabled"] = sorted(c.__module__ + "." + c.__name__ for c in command.Command._commands
                                   if c.__module__ + "." + c.__name__ not in tabled)
    res.extra["table_rows"] = len(T.ROWS)
    res.extra["rows_independent"] = sum(1 for r in T.ROWS if r.trust == "independent")
    res.extra["rows_pinned"] = sum(1 for r in T.ROWS if r.trust == "pinned")
    res.extra["pinned_rows"] = {r.name: r.note for r in T.ROWS if r.trust == "pinned"}
    res.extra["rows_enumerated_completely"] = complete_rows
    res.extra["argument_tuples_in_complete_space"] = sum(T.space_size(r) for r in T.ROWS)
    res.extra["disagreements_with_library"] = [
        {k: d[k] for k in ("row", "field", "library", "transcriber_believes", "confidence")}
        for d in T.DISAGREEMENTS]
