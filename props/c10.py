"""C10 - memory writes store exactly the data or fail loudly; never silently.

MemoryValue.write_raw() / write() generator sequences are run, through the fake bus, against the
frame-level unit models (harness/model_gear.py for 16-bit gear, harness/model_devmem.py for 24-bit
control devices; IEC 62386-102/-103 clause 9.10: writeEnableState, lock byte 0x55, DTR0
auto-increment, answer = byte written or NO).  Which locations a value occupies and which of them
are writable / lockable comes from harness/ref_memory.py, never from the library.

Unit variants: standard; non-standard unlock value (the unit stays locked after 0x55); shorter bank
(last accessible location below part of the value); DTR0 not advancing.  Faults change the ANSWER
of one query (write echo or the final DTR0 check): NO, another byte, framing error.

write_raw is also handed what is no byte string at all (the number instead of its bytes, None, text, floats, mappings,
iterators, nested lists, lists with an element that is no byte value): it must fail loudly, never "succeed" after storing
something the caller did not supply (case_badraw).

Shares discovery / unit construction / the query-indexed fault bus with props/c09.py, including the
values that check declares itself (non-contiguous, descending, scattered, mixed-type locations) and the generated family
of a program's own declarations (harness.ref_memory.family(seed), see props/c09.py: every base class, derivations from
shipped and own values, signed values, 1..12 locations in any order up to 0xFE, every access type / none / mixed
writeable + read-only, banks with and without lock / latch byte): every value of the family that has a location which is
not writeable must be refused before anything is sent under every combination of allow_short_write / force_unlock /
ignore_feedback; every writeable one goes through the same write judge as the shipped values (_shard_family).
"""
from hypothesis import strategies as st

from harness import hyp
from harness import ref_memory as RM
from harness.bus import NonTermination, run_interleaved
from harness.runner import Result, library_frame
from props import c09 as M

ID = "C10"
LEVEL = "exploration"
RULE = ("(value class, data or value, allow_short_write / force_unlock / ignore_feedback flags - as bools or as truthy / "
        "falsy objects of 11 other styles, falsy ones passed explicitly -, initial lock byte, "
        "addressing kind, unit variant, fault (query index, kind), image) tuples: per value class an enumeration of data "
        "patterns x lock byte x addressing, every unit variant (each shorter last location, several unlock values, DTR0 "
        "stuck), every fault kind at every write index and at the DTR0 check, every wrong length, value-level writes of "
        "what the value cannot hold (ints just and far below / above what its locations can represent, floats, strings, "
        "None, bytes, lists for plain numbers; over-long, non-ASCII and non-str arguments for strings), write_raw with "
        "what is no byte string where the raw bytes belong (ints equal to / below / above the value's length, 0, 255, 256, -1, "
        "None, bools, floats, text, an object, dicts, generators / iterators, nested lists, lists and tuples with an element "
        "256 / -1 / 1.5 / None / 'a' / 1.0 / a list at the first, a middle and the last position; with and without "
        "allow_short_write; every value class, read-only ones included); plus Hypothesis-"
        "generated tuples; distinct by construction / by fingerprint; non-trivial = writable value with a fault, a "
        "non-standard unit, a lockable or multi-byte value, a short write, or a refusal (read-only / wrong length / "
        "unstorable value / data that is no byte string); "
        "several writes in flight: 2 or 3 such tuples (mostly one value class, different data / unit image / addressing) "
        "on separate buses and the order in which they advance command by command (listed orders + Hypothesis-drawn), "
        "non-trivial = the writes really overlap in time; declared by a program: every value of the generated family of the "
        "run's seed - not writeable (read-only, untyped, mixed): all 8 option combinations x addressing x lock byte, short "
        "and value-level writes, data that is no byte string; writeable: data patterns x lock byte x options, short writes, "
        "value-level writes incl. MASK / TMASK literals and negative numbers of signed values, unstorable values / data, DTR0 "
        "stuck / unlock values / bank ending right below each location / hole at each location, each fault kind at each "
        "write index and at the DTR0 check")
ASSUMPTIONS = [
    "values declared by a program (generated family, harness/ref_memory.py family()): a location declared without type_ or "
    "with a read-only type makes the whole value not writeable, whatever the other locations are; force_unlock on a bank "
    "without lock byte (location 0x02 is an ordinary, here unwritable, location) must leave location 0x02 as it was; "
    "NVM_RW_P locations are written like NVM_RW ones (no standard protection mechanism); the unchanged library does all of it",
    "bus units follow harness/model_gear.py / model_devmem.py: WRITE MEMORY LOCATION is executed only while "
    "writeEnableState is ENABLED, answers the byte written or NO (not implemented / above last location / locked / not "
    "writable), advances DTR0 either way; lockable locations are writable only while location 0x02 holds the unlock "
    "value (IEC 62386-102 9.10; dali/tests/fakes.py models the same)",
    "memory types per location: harness/ref_memory.py (hand transcription, see C11)",
    "'refused before anything is sent': any exception raised before the first command is yielded counts as a refusal",
    "'documented memory/response exceptions': dali.exceptions.MemoryError and subclasses, ResponseError, MissingResponse",
    "a fault only changes the answer seen by the library; 'wrong echo' is only injected where the unit did answer",
    "a unit that does not advance DTR0 combined with an altered answer to the DTR0 check is unconstrained (the altered "
    "answer can be the value a healthy unit would give)",
    "with allow_short_write the permitted lengths are 1..len(locations); a zero-length write is not exercised (statement "
    "silent; the library raises MemoryWriteFailure for it on values that need no unlock)",
    "with ignore_feedback=True nothing is demanded of a write to a unit that refuses it",
    "after a write that RAISED nothing is demanded of the lock byte or of memory (the statement constrains writes "
    "that return normally)",
    "force_unlock on a value that is not lockable: the bank must be locked again afterwards if it has a lock",
    "a write that neither is of a lockable value nor was asked to force_unlock has no business with the lock byte: it is "
    "one of the 'other locations' that must not change",
    "allow_short_write / force_unlock / ignore_feedback mean bool(object): handed over as 1 / 0 / 2 / 'yes' / '' / [0] / "
    "[] / objects that only define __bool__ or __len__ (props.c09.SPELL) they must act as their truth value says - a "
    "falsy object, passed explicitly, is the default; the unchanged library only ever tests their truth value; None is "
    "not used (no option defaults to None)",
    "value-level writes (MemoryValue.write) are exercised only for plain numbers (table kind uint / cct), ASCII strings "
    "and the MASK / TMASK literals of numeric values - the reference encoding is big-endian / ASCII + NUL if shorter / "
    "the all-ones pattern; scaled and offset classes are not claimed to encode (see DESIGN 3, 'not counted')",
    "a value-level write whose argument cannot be turned into 'a byte string of the permitted length' for the value - an "
    "int outside what its locations represent (big-endian, two's complement if signed), a non-int other than a supported "
    "MASK / TMASK literal for a plain number (a bool is an int), a str longer than the field or with characters beyond "
    "ASCII, a non-str for a string; for scaled / offset numbers only ints beyond any scale (|v| >= 256**(n+2)), nan / "
    "infinity and non-numbers - must be refused (any exception) with nothing sent and memory untouched, also with "
    "ignore_feedback / force_unlock: storing other data instead is a silent failure.  The unchanged library refuses all of "
    "these; in-range numbers outside a value's min / max limits are accepted by it and not judged",
    "write_raw takes 'a byte string of the permitted length' - bytes, bytearray, or a list / tuple of ints 0..255.  An object "
    "that denotes no byte string - an int (the number instead of its bytes; bytes(n) would be n zero bytes), a bool, None, a "
    "float, text, a plain object, a dict with keys that are no byte values, nested lists, a list / tuple / generator with an "
    "element that is not an int in 0..255 - cannot be 'stored exactly': write_raw must raise (any exception), whatever the "
    "options, and afterwards memory may differ from before only by the caller's own leading byte values at their locations "
    "(the unchanged library writes location by location and stops at the first element it cannot send) and by the lock "
    "byte (it unlocks before it looks at the elements); for a value with read-only locations nothing may be sent at all.  "
    "An object that is no sequence but consists of byte values item by item (a generator / iterator of ints 0..255, a dict "
    "with such keys) may be refused like that or stored item by item, one per location - nothing else.  The unchanged "
    "library raises for every object of the first kind (TypeError from len(), ValueError from the command's parameter "
    "check) and for generators / iterators",
    "a shorter bank never hides the lock byte of a lockable value (last accessible location >= 3 there)",
    "write sequences in flight at the same time on separate buses (one driver per DALI line in one process) are "
    "independent: each must satisfy the statement on its own unit, end the way it ends alone and leave the same memory",
]

FAULT_NAMES = {"silence": "answer-no", "replace": "wrong-echo", "garble": "framing-error"}


def documented(exc):
    return (exc.MemoryError, exc.ResponseError, exc.MissingResponse)


def writable_row(row):
    return all(t in RM.WRITABLE_TYPES for t in row["memtype"])


def lockable_row(row):
    return any(t == "NVM_RW_L" for t in row["memtype"])


def ref_encode(row, value):
    """Reference raw bytes for a value-level write, or None if the pair is not covered."""
    kind, w = row["kind"], row["width"]
    if value == "MASK":
        return RM.mask_pattern(w, row["signed"]) if row["mask"] and kind != "scaled" else None
    if value == "TMASK":
        return RM.tmask_pattern(w, row["signed"]) if row["tmask"] and kind != "scaled" else None
    if isinstance(value, str):
        if kind != "string" or len(value) > w:
            return None
        b = [ord(c) for c in value]
        return b + [0] if len(b) < w else b
    if isinstance(value, int) and not isinstance(value, bool) and kind in ("uint", "cct"):
        lo, hi = number_range(row)
        if value < lo or value > hi:
            return None
        try:
            return RM.encode_number(row, value)
        except ValueError:
            return None
    return None


def variant_params(case):
    v = case.get("variant") or ["standard"]
    p = dict(unlock_value=0x55, no_dtr0_inc=False, last=0xFE, holes=[])
    if v[0] == "unlock_value":
        p["unlock_value"] = v[1]
    elif v[0] == "short_bank":
        p["last"] = v[1]
    elif v[0] == "no_dtr0_inc":
        p["no_dtr0_inc"] = True
    elif v[0] == "hole":
        p["holes"] = [v[1]]
    return v[0], p


OPTIONS = (("asw", "allow_short_write"), ("force_unlock", "force_unlock"), ("ignore_feedback", "ignore_feedback"))


def option_kwargs(case):
    """The boolean options as handed to the library.  case[field] is what the option MEANS (a bool); case['spell'][field]
    optionally names the style of a truthy / falsy object that is not a bool (props.c09.spelled), which is then passed
    explicitly also when it means False.  Unspelled options are passed as True or left at their default."""
    spell = case.get("spell") or {}
    kw = {}
    for field, name in OPTIONS:
        if field == "asw" and case["mode"] in ("value", "badvalue"):
            continue                    # value-level writes decide about short writes themselves
        truth = bool(case.get(field))
        if spell.get(field):
            kw[name] = M.spelled(spell[field], truth)
        elif truth:
            kw[name] = True
    return kw


def describe(case):
    s = "%s.%s(%s%s) via %s address %d, lock byte initially 0x%02x" % (
        case["key"], "write" if case["mode"] in ("value", "badvalue") else "write_raw",
        repr(case["value"]) if case["mode"] == "value" else _short_repr(bad_arg(case["arg"])) if case["mode"] == "badvalue"
        else raw_arg_text(case["arg"]) if case["mode"] == "badraw" else "[" + M.hexs(case["data"]) + "]",
        "".join(", %s=%r" % (k, v) for k, v in option_kwargs(case).items()), case["addr"], case["short"], case["lock"])
    v = case.get("variant") or ["standard"]
    if v[0] != "standard":
        s += ", unit variant %s" % (v,)
    if case.get("fault"):
        s += ", fault %s at query #%d" % (case["fault"][1], case["fault"][0])
    return s


LAST_OUTCOME = [None]


# ------------------------------------------------- value-level writes that cannot be stored ----
def _short_repr(v):
    r = repr(v)
    return r if len(r) <= 60 else r[:28] + "..." + r[-28:]


def bad_arg(spec):
    """JSON form -> the object handed to MemoryValue.write: ["int", n] | ["float", x | "nan" | "inf" | "-inf"] |
    ["str", s] | ["none"] | ["bool", b] | ["bytes" | "bytearray", hex] | ["list" | "tuple", [...]] | ["decimal", text] |
    ["fraction", [p, q]] | ["complex", [re, im]]"""
    t = spec[0]
    if t == "int":
        if isinstance(spec[1], bool) or not isinstance(spec[1], int):
            raise ValueError("bad-value spec %r" % (spec,))
        return spec[1]
    if t == "float":
        return float(spec[1])
    if t == "str":
        if not isinstance(spec[1], str):
            raise ValueError("bad-value spec %r" % (spec,))
        return spec[1]
    if t == "none":
        return None
    if t == "bool":
        return bool(spec[1])
    if t == "bytes":
        return bytes.fromhex(spec[1])
    if t == "bytearray":
        return bytearray.fromhex(spec[1])
    if t == "list":
        return list(spec[1])
    if t == "tuple":
        return tuple(spec[1])
    if t == "decimal":
        from decimal import Decimal
        return Decimal(spec[1])
    if t == "fraction":
        from fractions import Fraction
        return Fraction(spec[1][0], spec[1][1])
    if t == "complex":
        return complex(spec[1][0], spec[1][1])
    raise ValueError("bad-value spec %r" % (spec,))


def number_range(row):
    """The numbers that fit the value's locations at all (big-endian, two's complement if signed)."""
    bits = 8 * row["width"]
    return (-(1 << (bits - 1)), (1 << (bits - 1)) - 1) if row["signed"] else (0, (1 << bits) - 1)


def bad_category(row, spec):
    """Why the argument cannot be stored in this value - or None if the statement (as read in ASSUMPTIONS) does not say
    that it cannot."""
    kind, w, t = row["kind"], row["width"], spec[0]
    if kind == "string":
        if t == "str":
            if any(ord(c) > 0x7F for c in spec[1]):
                return "string-not-ascii"
            if len(spec[1]) > w:
                return "string-too-long"
            return None
        return "not-a-string"
    if kind in ("uint", "cct"):
        if t == "int":
            lo, hi = number_range(row)
            return "int-out-of-range" if spec[1] < lo or spec[1] > hi else None
        if t == "bool":
            return None                 # a bool is an int
        if t == "str" and ((spec[1] == "MASK" and row["mask"]) or (spec[1] == "TMASK" and row["tmask"])):
            return None
        return "not-an-int"
    if kind in ("fixed", "temp"):
        # scaled / offset numbers: only what no scale factor or offset of this library brings into range, or no number
        if t == "int":
            return "int-out-of-range" if abs(spec[1]) >= 1 << (8 * w + 16) else None
        if t == "float":
            return "not-a-number" if spec[1] in ("nan", "inf", "-inf") else None
        if t in ("bool", "decimal", "fraction"):
            return None
        if t == "str" and spec[1] in ("MASK", "TMASK"):
            return None
        return "not-a-number"
    return None


def bad_values_for(row, seed):
    """Arguments of MemoryValue.write that cannot be stored in this value (see bad_category)."""
    kind, w = row["kind"], row["width"]
    out = []
    if kind == "string":
        out += [["str", "x" * (w + 1)], ["str", "x" * (w + 7)], ["str", "ab" * w], ["str", "\u00e9"], ["str", "\u0080"],
                ["str", "\u00ff"], ["str", "x" * (w - 1) + "\u00e9"], ["str", "\u20ac" + "x" * (w - 1)], ["str", "A\u0100"],
                ["str", "\u65e5\u672c"[:w]], ["str", "x" * (w // 2) + "\u0080" + "y"],
                ["int", 65], ["int", 0], ["none"], ["float", 1.5], ["bool", True], ["bool", False],
                ["bytes", b"abc"[:w].hex()], ["bytes", ""], ["bytearray", b"ab"[:w].hex()], ["list", ["a", "b"][:w]],
                ["list", [65]], ["tuple", ["a"]]]
    elif kind in ("uint", "cct"):
        lo, hi = number_range(row)
        full = 1 << (8 * w)
        r = int.from_bytes(bytes(M.prng(seed + 9, w)), "big")
        ints = [lo - 1, lo - 5, lo - full, -full, -full - 1, -1, -128, -255, -256, -(full >> 1) - 1, hi + 1, hi + 6, hi + full,
                full, full + 5, full + r, 2 * full - 1, full << 8, (full << 8) + r, 10 ** 30, -10 ** 30, 1 << 64, -(1 << 63) - 1]
        out += [["int", v] for v in ints]
        out += [["float", 0.0], ["float", 1.0], ["float", 0.5], ["float", -1.0], ["float", float(min(hi, 1 << 52))], ["float", "nan"],
                ["float", "inf"], ["str", "0"], ["str", "1"], ["str", ""], ["str", "0x01"], ["str", "one"], ["str", "MASK"],
                ["str", "TMASK"], ["none"], ["bytes", "01" * w], ["bytes", ""], ["bytearray", "01" * w], ["list", [1] * w],
                ["list", []], ["tuple", [0] * w], ["decimal", "1.5"], ["fraction", [1, 2]], ["complex", [1, 0]]]
    elif kind in ("fixed", "temp"):
        out += [["int", 10 ** 30], ["int", -10 ** 30], ["int", 1 << (8 * w + 16)], ["int", -(1 << (8 * w + 16))], ["float", "nan"],
                ["float", "inf"], ["float", "-inf"], ["str", "abc"], ["str", ""], ["none"], ["bytes", "01" * w], ["list", [1] * w],
                ["complex", [1, 0]]]
    seen, res = [], []
    for spec in out:
        if spec not in seen and bad_category(row, spec) is not None:
            seen.append(spec)
            res.append(spec)
    return res


def case_badvalue(case):
    """{"mode": "badvalue", "key": ..., "arg": spec, addressing, lock, image, options}: MemoryValue.write with an argument
    that cannot be stored in the value: the write must be refused - any exception - with nothing sent and memory
    untouched; never completed with some other data stored."""
    L = M.lib()
    row = M.all_rows()[case["key"]]
    cls = L["classes"].get(case["key"])
    if cls is None:
        return []
    cat = bad_category(row, case["arg"])
    if cat is None or not writable_row(row):
        raise ValueError("not an unstorable argument for a writable value: %r" % (case,))
    spec = M.bankspec(row["bankobj"])
    w = M.World(row["bankobj"], case["addr"], case["short"], case["image"], 0xFE, [], case["lock"])
    bus = M.MemBus(w.units, fault=None, max_commands=60 + 6 * len(row["locs"]), watch=w.target)
    where = describe(case)
    addr = M.make_addr(case["addr"], case["short"])
    value = bad_arg(case["arg"])
    err = None
    try:
        bus.run(cls.write(addr, value, **option_kwargs(case)))
    except NonTermination:
        return [("C10:nontermination", "%s: more than %d commands" % (where, bus.max_commands))]
    except Exception as e:  # noqa: any exception is a refusal
        if library_frame(e.__traceback__) is None:
            raise
        err = e
    LAST_OUTCOME[0] = "outcome:refused-unstorable-value"
    out = []
    before, after = w.image, w.bank.contents
    if err is None:
        locs = row["locs"]
        out.append(("C10:unstorable-value-accepted:" + cat, "%s returned normally after %d commands although the argument cannot "
                    "be stored in the value's %d location(s) (%s); they held [%s] and now hold [%s]"
                    % (where, bus.n, len(locs), cat, M.hexs([before[a] for a in locs]), M.hexs([after[a] for a in locs]))))
        LAST_OUTCOME[0] = "outcome:unstorable-value-accepted"
        return out
    if bus.n > 0:
        out.append(("C10:sent-before-refusing", "%s: %d command(s) were sent before the write was refused with %r (%s)"
                    % (where, bus.n, err, cat)))
    if after != before or w.others_changed() or (spec["has_lock_byte"] and after[2] != before[2]):
        out.append(("C10:refused-write-changed-memory", "%s: memory changed although the write was refused with %r" % (where, err)))
    return out


# ------------------------------------------------- write_raw with data that is no byte string ----
# write_raw() takes "the raw bytes".  What a caller hands over by mistake - the NUMBER instead of its bytes, None, text,
# a float, a mapping, an iterator, a nested list, a list with an element that is no byte value - denotes no byte string,
# so no "exactly those bytes" can be stored: the write has to fail.  An object that is not a sequence but whose items ARE
# byte values (a generator / iterator of ints 0..255, a dict whose keys are such ints) may be refused or stored item by
# item - nothing else.
def raw_arg(spec):
    """JSON form -> the object handed to write_raw as `raw`: ["int", n] | ["bool", b] | ["none"] | ["float", x] |
    ["str", s] | ["object"] | ["dict", [[key, value], ...]] | ["gen" | "iter" | "list" | "tuple", [items]] with items
    ints / floats / None / strings / nested lists"""
    t = spec[0]
    if t == "int":
        if isinstance(spec[1], bool) or not isinstance(spec[1], int):
            raise ValueError("raw-data spec %r" % (spec,))
        return spec[1]
    if t == "bool":
        return bool(spec[1])
    if t == "none":
        return None
    if t == "float":
        return float(spec[1])
    if t == "str":
        if not isinstance(spec[1], str):
            raise ValueError("raw-data spec %r" % (spec,))
        return spec[1]
    if t == "object":
        return object()
    if t == "dict":
        return {k: v for k, v in spec[1]}
    if t == "gen":
        return (x for x in list(spec[1]))
    if t == "iter":
        return iter(list(spec[1]))
    if t == "list":
        return list(spec[1])
    if t == "tuple":
        return tuple(spec[1])
    raise ValueError("raw-data spec %r" % (spec,))


def raw_arg_text(spec):
    t = spec[0]
    if t in ("gen", "iter"):
        return "<%s of %s>" % ("generator" if t == "gen" else "iterator", _short_repr(list(spec[1])))
    if t == "object":
        return "object()"
    return _short_repr(raw_arg(spec))


def _is_byte(x):
    return isinstance(x, int) and 0 <= x <= 255           # (a bool is an int)


def raw_denotes(spec):
    """The byte values the object consists of item by item, or None when it denotes no byte string."""
    t = spec[0]
    if t in ("gen", "iter", "list", "tuple"):
        return [int(x) for x in spec[1]] if all(_is_byte(x) for x in spec[1]) else None
    if t == "dict":
        keys = [k for k, _ in spec[1]]
        return [int(k) for k in keys] if all(_is_byte(k) for k in keys) else None
    return None


def raw_category(spec):
    """Why the object is no byte string (None: it is one item by item - then see raw_denotes)."""
    t = spec[0]
    if t in ("int", "bool", "none", "float", "object"):
        return {"int": "an-int", "bool": "a-bool", "none": "None", "float": "a-float", "object": "an-object"}[t]
    if t == "str":
        return "a-str"
    if raw_denotes(spec) is not None:
        return None if t in ("list", "tuple") else "not-a-sequence-but-byte-items"
    if t == "dict":
        return "a-dict"
    items = spec[1]
    if any(isinstance(x, list) for x in items):
        return "nested-list"
    if any(isinstance(x, int) and not isinstance(x, bool) and not _is_byte(x) for x in items):
        return "element-out-of-range"
    return "element-not-an-int"


def bad_raws_for(row):
    """[(spec, allow_short_write)]: objects handed to write_raw where the raw bytes belong (see raw_category)."""
    w = row["width"]
    out = []
    for n in dict.fromkeys([w, w - 1, w + 1, 0, 1, 2, 255, 256, -1, 2 * w, w + 7]):
        out += [(["int", n], False), (["int", n], True)]
    both = [["none"], ["bool", True], ["float", float(w)], ["str", "a" * w], ["gen", [1] * w], ["list", [[1]] * w],
            ["list", [1] * (w - 1) + [256]], ["dict", [[chr(65 + i % 26) + str(i), i] for i in range(w)]]]
    for spec in both:
        out += [(spec, False), (spec, True)]
    one = [["float", 1.5], ["bool", False], ["object"], ["str", "\x01" * w], ["str", "1"], ["str", ""], ["str", "a" * (w + 1)],
           ["dict", [["a", 1]]], ["dict", []], ["iter", [0] * w], ["gen", [256] * w], ["gen", []], ["gen", [1] * (w + 1)],
           ["list", [[1] * w]], ["list", [[]] * w], ["tuple", [[0]] * w], ["list", [[1, 2]] + [3] * (w - 1)]]
    for bad in (256, -1, 1.5, None, "a", 1.0, 1 << 40, "1", [1]):
        one.append(["list", [7] * (w - 1) + [bad]])
        if w > 1:
            one.append(["list", [bad] + [7] * (w - 1)])
        if w > 2:
            one.append(["tuple", [7] * (w // 2) + [bad] + [7] * (w - w // 2 - 1)])
    if w > 1:
        one += [["str", "a" * (w - 1)], ["list", [256]], ["list", [None] * (w - 1)], ["gen", [1] * (w - 1)]]
    for i, spec in enumerate(one):
        asw = bool(i % 2)
        if asw and spec[0] in ("str", "dict", "gen", "iter", "list", "tuple") and len(spec[1]) == 0:
            asw = False                 # a zero-length short write is not part of this check
        out.append((spec, asw))
    seen, res = [], []
    for spec, asw in out:
        if (spec, asw) not in seen and raw_category(spec) is not None:
            seen.append((spec, asw))
            res.append((spec, asw))
    return res


def case_badraw(case):
    """{"mode": "badraw", "key": ..., "arg": spec, "asw": ..., addressing, lock, image, options}: write_raw with an object
    that is no byte string.  It must not return normally - unless the object consists of byte values item by item and
    exactly those are stored - and a refusal must not leave anything in memory but the caller's own leading bytes."""
    L = M.lib()
    row = M.all_rows()[case["key"]]
    cls = L["classes"].get(case["key"])
    if cls is None:
        return []
    spec_arg = case["arg"]
    cat = raw_category(spec_arg)
    if cat is None:
        raise ValueError("a sequence of byte values is not a case of this mode: %r" % (case,))
    den = raw_denotes(spec_arg)
    asw = bool(case.get("asw"))
    if asw and den is not None and len(den) == 0:
        raise ValueError("zero-length short write is not part of the generator: %r" % (case,))
    spec = M.bankspec(row["bankobj"])
    locs = row["locs"]
    is_writable = writable_row(row)
    w = M.World(row["bankobj"], case["addr"], case["short"], case["image"], 0xFE, [], case["lock"])
    bus = M.MemBus(w.units, fault=None, max_commands=60 + 6 * len(locs), watch=w.target)
    where = describe(case)
    addr = M.make_addr(case["addr"], case["short"])
    err = None
    try:
        bus.run(cls.write_raw(addr, raw_arg(spec_arg), **option_kwargs(case)))
    except NonTermination:
        return [("C10:nontermination", "%s: more than %d commands" % (where, bus.max_commands))]
    except Exception as e:  # noqa: any exception is a refusal
        if library_frame(e.__traceback__) is None:
            raise
        err = e
    out = []
    before, after = w.image, w.bank.contents
    hold = lambda img: M.hexs([img[a] for a in locs])       # noqa
    unlocks = bool(case.get("force_unlock")) or lockable_row(row)
    if err is None:
        if den is None:
            LAST_OUTCOME[0] = "outcome:unstorable-data-accepted"
            return [("C10:unstorable-data-accepted:" + cat, "%s returned normally after %d commands although the data is no byte "
                     "string (%s); the value's %d location(s) held [%s] and now hold [%s]"
                     % (where, bus.n, cat, len(locs), hold(before), hold(after)))]
        n = len(den)
        if not is_writable:
            return [("C10:readonly-not-refused", "%s returned normally although the value has read-only locations" % where)]
        if not (n == len(locs) or (asw and 1 <= n <= len(locs))):
            return [("C10:wrong-length-accepted", "%s returned normally although %d items do not fit %d locations"
                     % (where, n, len(locs)))]
        exp = list(before)
        for loc, b in zip(locs, den):
            exp[loc] = b
        skip2 = spec["has_lock_byte"] and 2 not in locs[:n] and unlocks
        wrong = [i for i in range(M.NLOC) if after[i] != exp[i] and not (skip2 and i == 2)]
        if wrong:
            out.append(("C10:data-not-stored", "%s returned normally but location(s) %s differ from the items stored one per "
                        "location: [%s], expected [%s]" % (where, ["0x%02x" % i for i in wrong[:6]],
                                                           M.hexs([after[i] for i in wrong[:6]]), M.hexs([exp[i] for i in wrong[:6]]))))
        if w.others_changed():
            out.append(("C10:other-unit-changed", "%s changed the memory of %s" % (where, w.others_changed())))
        LAST_OUTCOME[0] = "outcome:byte-items-stored"
        return out
    LAST_OUTCOME[0] = "outcome:refused-unstorable-data"
    if not is_writable:
        if bus.n > 0:
            out.append(("C10:sent-before-refusing", "%s: %d command(s) were sent before the write was refused with %r (the value "
                        "has read-only locations)" % (where, bus.n, err)))
        if after != before or w.others_changed():
            out.append(("C10:refused-write-changed-memory", "%s: memory changed although the write had to be refused" % where))
        return out
    # what a refused write may have left behind: the caller's own leading byte values, each at its location
    items = spec_arg[1] if spec_arg[0] in ("list", "tuple") else (den or [])
    allowed = {}
    for loc, x in zip(locs, items):
        if not _is_byte(x):
            break
        allowed[loc] = int(x)
    bad = [i for i in range(M.NLOC) if after[i] != before[i] and not (i in allowed and after[i] == allowed[i])
           and not (i == 2 and spec["has_lock_byte"] and 2 not in locs)]
    if bad:
        out.append(("C10:refused-write-changed-memory", "%s was refused with %r but location(s) %s changed: [%s] -> [%s] - not "
                    "bytes the caller supplied (%s)" % (where, err, ["0x%02x" % i for i in bad[:6]], M.hexs([before[i] for i in bad[:6]]),
                                                        M.hexs([after[i] for i in bad[:6]]), cat)))
    if w.others_changed():
        out.append(("C10:other-unit-changed", "%s changed the memory of %s" % (where, w.others_changed())))
    return out


def run_case(case):
    M.ensure_family(case)
    if case.get("kind") == "interleaved":
        return case_interleaved(case)
    if case.get("mode") == "badvalue":
        return case_badvalue(case)
    if case.get("mode") == "badraw":
        return case_badraw(case)
    g = _case_steps(case)
    try:
        bus, seq = next(g)
    except StopIteration as e:
        return e.value
    try:
        oc = ("returned", bus.run(seq))
    except Exception as e:  # noqa: classified by _case_steps
        oc = ("raised", e)
    try:
        g.send(oc)
    except StopIteration as e:
        return e.value
    raise RuntimeError("_case_steps yielded twice")


def _case_steps(case, keep=None):
    """One write case in two steps: builds the units, the bus and the library sequence and yields (bus, sequence); is
    sent the sequence's outcome ("returned", value) | ("raised", exception) and returns the violations.  keep: optional
    dict that receives the world ('w')."""
    L = M.lib()
    exc = L["exc"]
    row = M.all_rows()[case["key"]]
    cls = L["classes"].get(case["key"])
    if cls is None:
        return []
    spec = M.bankspec(row["bankobj"])
    locs = row["locs"]
    vname, vp = variant_params(case)
    mode = case["mode"]
    asw = bool(case.get("asw"))
    force_unlock = bool(case.get("force_unlock"))
    ignore_feedback = bool(case.get("ignore_feedback"))
    if mode == "value":
        raw = ref_encode(row, case["value"])
        if raw is None:
            raise ValueError("case not covered by the reference encoder: %r" % (case,))
        asw_eff = row["kind"] == "string"
    else:
        raw = list(case["data"])
        asw_eff = asw
    n = len(raw)
    length_ok = (n == len(locs)) or (asw_eff and 1 <= n <= len(locs))
    is_writable = writable_row(row)
    if asw_eff and n == 0 and is_writable:
        # (an empty short write to a writeable value: nothing states what that should do.  To a value that cannot be
        # written it is refused like any other data)
        raise ValueError("zero-length short write to a writeable value is not part of the generator: %r" % (case,))
    must_refuse = not is_writable or not length_ok
    w = M.World(row["bankobj"], case["addr"], case["short"], case["image"], vp["last"], vp["holes"],
                case["lock"], unlock_value=vp["unlock_value"], no_dtr0_inc=vp["no_dtr0_inc"])
    fault = tuple(case["fault"]) if case.get("fault") else None
    bus = M.MemBus(w.units, fault=fault, max_commands=60 + 6 * len(locs), watch=w.target)
    where = describe(case)
    addr = M.make_addr(case["addr"], case["short"])
    kw = option_kwargs(case)
    if mode == "value":
        seq = cls.write(addr, case["value"], **kw)
    elif case.get("call", "positional" if (len(raw) + len(case["image"]) + bool(case.get("force_unlock")) + bool(case.get("short"))) % 3 == 0 else "keyword") == "positional":
        # the options given by position, in the documented order (allow_short_write, force_unlock, ignore_feedback)
        seq = cls.write_raw(addr, bytes(raw), kw.get("allow_short_write", False), kw.get("force_unlock", False),
                            kw.get("ignore_feedback", False))
    else:
        seq = cls.write_raw(addr, bytes(raw), **kw)
    outcome, err = "returned", None
    nw_at_fault = None
    if keep is not None:
        keep["w"] = w
        keep["where"] = where
    oc = yield (bus, seq)
    if oc[0] == "raised":
        e = oc[1]
        if isinstance(e, NonTermination):
            return [("C10:nontermination", "%s: more than %d commands" % (where, bus.max_commands))]
        if library_frame(e.__traceback__) is None:
            raise e
        outcome, err = "raised", e
    out = []
    before = w.image
    after = w.bank.contents
    LAST_OUTCOME[0] = None

    if must_refuse:
        why = "has read-only locations" if not is_writable else "data length %d does not fit %d locations" % (n, len(locs))
        if outcome == "returned":
            out.append(("C10:readonly-not-refused" if not is_writable else "C10:wrong-length-accepted",
                        "%s returned normally although the value %s (%d commands sent)" % (where, why, bus.n)))
        elif bus.n > 0:
            out.append(("C10:sent-before-refusing", "%s: %d command(s) were sent before the write was refused with %r "
                        "(the value %s)" % (where, bus.n, err, why)))
        if after != before or w.others_changed():
            out.append(("C10:refused-write-changed-memory", "%s: memory changed although the write had to be refused" % where))
        LAST_OUTCOME[0] = "outcome:refused-" + ("read-only" if not is_writable else "wrong-length")
        return out

    # ---- reference prediction of what a conforming unit does with the canonical command stream
    unlocks = force_unlock or lockable_row(row)
    lockbyte = before[2] if spec["has_lock_byte"] else None
    if unlocks and spec["has_lock_byte"] and w.implemented(2):
        lockbyte = 0x55
    cause = None
    for loc, t, b in zip(locs, row["memtype"], raw):
        if not w.implemented(loc):
            cause = cause or "location-not-accessible"
        elif t == "NVM_RW_L" and lockbyte != vp["unlock_value"]:
            cause = cause or "unit-stays-locked"
        if loc == 2 and spec["has_lock_byte"]:
            lockbyte = b
    if vp["no_dtr0_inc"]:
        cause = cause or "dtr0-not-advancing"
    unit_ok = cause is None
    injected = bus.injected
    at_check = False
    if injected:
        q, kind = injected
        what, entry = bus.fault_access
        if what == "write" and entry[0] == spec["bank"] and entry[1] in locs:
            cause = FAULT_NAMES[kind]
        elif what == "other":
            at_check = True            # the only other query a write may issue: QUERY CONTENT DTR0
            cause = ("wrong-dtr0" if kind == "replace" else FAULT_NAMES[kind]) + "-at-dtr0-check"
        else:
            # an answer the statement does not speak about (e.g. a reply to the unlock write)
            LAST_OUTCOME[0] = "outcome:fault-on-a-query-outside-the-statement"
            return out
        if ignore_feedback:
            LAST_OUTCOME[0] = "outcome:ignored-feedback-with-fault"
            return out

    if injected and injected[1] == "replace" and at_check and not unit_ok:
        # the altered DTR0 answer may be exactly what a healthy unit would have said: nobody can tell
        LAST_OUTCOME[0] = "outcome:unit-failure-masked-by-altered-dtr0-answer"
        return out
    if ignore_feedback and not unit_ok:
        LAST_OUTCOME[0] = "outcome:ignored-feedback-of-refusing-unit"
        return out
    if unit_ok and not injected:
        if outcome == "raised":
            out.append(("C10:spurious-failure:" + type(err).__name__, "%s raised %r although the unit is a conforming, "
                        "accessible unit and no fault was injected" % (where, err)))
            LAST_OUTCOME[0] = "outcome:spurious-failure"
            return out
        # stored exactly the data, at exactly the value's locations
        exp = list(before)
        for loc, b in zip(locs, raw):
            exp[loc] = b
        wrong = [loc for loc in locs[:n] if after[loc] != exp[loc]]
        if wrong:
            sig = "C10:value-encoding:" + M.signame(row) if mode == "value" else "C10:data-not-stored"
            out.append((sig, "%s returned normally but location(s) %s hold [%s], expected [%s]"
                        % (where, ["0x%02x" % a for a in wrong], M.hexs([after[a] for a in locs[:n]]), M.hexs(raw))))
        # the lock byte may end up different from what it was (0xFF, 'locked again') only if the write had to unlock
        skip2 = spec["has_lock_byte"] and 2 not in locs[:n] and unlocks
        other = [i for i in range(M.NLOC) if after[i] != exp[i] and i not in locs[:n] and not (skip2 and i == 2)]
        if other:
            out.append(("C10:other-location-changed", "%s changed location(s) %s that do not belong to the data written"
                        % (where, ["0x%02x (0x%02x -> 0x%02x)" % (i, before[i] if before[i] is not None else -1,
                                                                    after[i] if after[i] is not None else -1) for i in other[:6]])))
        if unlocks and spec["has_lock"] and 2 not in locs[:n] and after[2] == 0x55:
            out.append(("C10:left-unlocked", "%s returned normally and left the lock byte at 0x55 (bank unlocked)" % where))
        ch = w.others_changed()
        if ch:
            out.append(("C10:other-unit-changed", "%s changed the memory of %s" % (where, ch)))
        LAST_OUTCOME[0] = "outcome:stored"
        return out
    # a failure that the library can see: it must be reported
    if outcome == "returned":
        why = {
            "location-not-accessible": "part of the value is not accessible in this unit (last accessible location 0x%02x, "
                                       "unimplemented %s; the unit answered NO)" % (vp["last"], vp["holes"]),
            "unit-stays-locked": "the unit stays locked (unlock value 0x%02x) and answered NO" % vp["unlock_value"],
            "dtr0-not-advancing": "the unit does not advance DTR0",
        }.get(cause, "the answer to query #%s was changed (%s)" % (injected[0] if injected else "?", cause))
        out.append(("C10:silent-failure:" + cause, "%s returned normally although %s" % (where, why)))
        LAST_OUTCOME[0] = "outcome:silent-failure"
    elif not isinstance(err, documented(exc)):
        out.append(("C10:undocumented-exception:" + type(err).__name__, "%s raised %r, which is none of the documented "
                    "memory / response exceptions (%s)" % (where, err, cause)))
        LAST_OUTCOME[0] = "outcome:undocumented-exception"
    else:
        LAST_OUTCOME[0] = "outcome:reported:" + type(err).__name__
    return out


# --------------------------------------------------- several sequences in flight ----
LAST_INTER = [None]     # (id(case), did the sequences really overlap in time) of the most recent interleaved case


def _prepared(sub):
    """-> (generator of _case_steps, keep dict, (bus, seq)) or (None, None, violations) when the case ends early"""
    keep = {}
    g = _case_steps(sub, keep)
    try:
        return g, keep, next(g)
    except StopIteration as e:
        return None, None, e.value


def _finish(g, oc):
    try:
        g.send(oc)
    except StopIteration as e:
        return e.value
    raise RuntimeError("_case_steps yielded twice")


def _memory(w):
    return [(u.name, b, list(u.banks[b].contents)) for u in w.units for b in sorted(u.banks)]


def case_interleaved(case):
    """Several write sequences in flight at once, each on its own bus against its own units, advanced command by
    command in the order case['schedule'] (then case['cycle'] repeatedly): each must satisfy the single-write oracle on
    its own unit, end the way it ends alone (returned / same exception class) and leave all memory as it does alone."""
    subs = case["jobs"]
    preps = [_prepared(c) for c in subs]
    if any(p[0] is None for p in preps):
        return []
    order = []
    ocs = run_interleaved([p[2] for p in preps], M.expand_schedule(case.get("schedule")),
                          M.expand_schedule(case.get("cycle")) or None, order=order)
    LAST_INTER[0] = (id(case), sum(1 for a, b in zip(order, order[1:]) if a != b) > len(subs) - 1)
    out, seen = [], set()

    def add(sig, msg):
        if sig not in seen:
            seen.add(sig)
            out.append((sig, msg))

    def brief(oc):
        return "returned" if oc[0] == "returned" else "raised " + type(oc[1]).__name__

    for i, ((g, keep, _), oc) in enumerate(zip(preps, ocs)):
        vs = _finish(g, oc)
        rg, rkeep, pair = _prepared(subs[i])
        try:
            roc = ("returned", pair[0].run(pair[1]))
        except Exception as e:  # noqa: classified by _case_steps
            roc = ("raised", e)
        rvs = _finish(rg, roc)
        for sig, msg in rvs:                  # not a matter of interleaving: the write fails on its own
            add(sig, msg)
        alone = set(sig for sig, _ in rvs)
        why = None
        if brief(oc) != brief(roc):
            why = "it %s; alone it %s" % (brief(oc), brief(roc))
        elif _memory(keep["w"]) != _memory(rkeep["w"]):
            a, r = keep["w"].bank.contents, rkeep["w"].bank.contents
            d = [k for k in range(M.NLOC) if a[k] != r[k]]
            why = "memory is left different from the same write run alone" + (
                ": location(s) %s hold [%s], alone [%s]" % (["0x%02x" % k for k in d[:8]], M.hexs([a[k] for k in d[:8]]),
                                                            M.hexs([r[k] for k in d[:8]])) if d else " (another unit / bank)")
        elif [v for v in vs if v[0] not in alone]:
            why = "%s: %s" % [v for v in vs if v[0] not in alone][0]
        if why:
            add("C10:interleaved-sequences-interfere:" + ("write" if subs[i]["mode"] == "value" else "write_raw"),
                "write #%d of %d in flight at the same time on separate buses (advance order %s...; the others: %s): %s: %s"
                % (i, len(subs), order[:24], "; ".join(p[1]["where"] for k, p in enumerate(preps) if k != i),
                   keep["where"], why))
    LAST_OUTCOME[0] = "outcome:interleaved:" + ("overlapping" if LAST_INTER[0][1] else "sequential")
    return out


# ----------------------------------------------------------------- non-triviality ----
def features(case):
    if case.get("kind") == "interleaved":
        subs = case["jobs"]
        f = ["interleaved:%d-writes" % len(subs)]
        if len(set(c["key"] for c in subs)) < len(subs):
            f.append("interleaved:same-value-class")
        if len(set(M.all_rows()[c["key"]]["bankobj"] for c in subs)) < len(subs):
            f.append("interleaved:same-bank-object")
        if len(set("device" if c["addr"] == "device" else "gear" for c in subs)) > 1:
            f.append("interleaved:gear+device")
        return f
    row = M.all_rows()[case["key"]]
    f = []
    wr = writable_row(row)
    f.append("writable" if wr else "read-only")
    n = len(case["data"]) if case["mode"] == "raw" else None
    if wr:
        if lockable_row(row):
            f.append("lockable")
        if row["width"] > 1:
            f.append("multi-byte")
        v = (case.get("variant") or ["standard"])[0]
        if v != "standard":
            f.append("variant:" + v)
        if case.get("fault"):
            f.append("fault:" + case["fault"][1])
        if n is not None and case.get("asw") and 0 < n < row["width"]:
            f.append("short-write")
    if n is not None and (n != row["width"]) and not (case.get("asw") and 0 < n < row["width"]):
        f.append("wrong-length")
    if case["mode"] == "value":
        f.append("value-level")
    if case["mode"] == "badvalue":
        f.append("value-level")
        f.append("unstorable-value:%s" % bad_category(row, case["arg"]))
    if case["mode"] == "badraw":
        f.append("unstorable-data:%s" % raw_category(case["arg"]))
        if case.get("asw"):
            f.append("unstorable-data:allow-short-write")
    if case.get("ignore_feedback"):
        f.append("ignore-feedback")
    if case.get("force_unlock"):
        f.append("force-unlock")
    for field in sorted(case.get("spell") or {}):
        f.append("option-spelling:%s:%s" % (field, "truthy" if case.get(field) else "falsy"))
    return f


def is_nontrivial(case):
    if case.get("kind") == "interleaved":
        # known once the case has run: did the sequences overlap in time at all?
        return LAST_INTER[0] is not None and LAST_INTER[0][0] == id(case) and LAST_INTER[0][1]
    f = features(case)
    return any(x.startswith(("fault:", "variant:", "unstorable-value:", "unstorable-data:")) or x in ("lockable", "multi-byte", "short-write", "wrong-length",
                                                             "read-only") for x in f)


# -------------------------------------------------------------------------- shards ----
ADDRS = M.ADDRS
LOCKS = (0xFF, 0x55, 0x00)


def _case(key, data, addr="gear", short=5, lock=0xFF, mode="raw", value=None, asw=False, force_unlock=False,
          ignore_feedback=False, variant=None, fault=None, image=None, spell=None):
    c = {"key": key, "mode": mode, "addr": addr, "short": short, "lock": lock, "asw": asw, "force_unlock": force_unlock,
         "ignore_feedback": ignore_feedback, "variant": variant or ["standard"], "fault": fault,
         "image": image or ["prng", 77]}
    if spell:
        c["spell"] = dict(spell)        # option field -> style in which it is handed over (see option_kwargs)
    if mode == "value":
        c["value"] = value
    elif mode in ("badvalue", "badraw"):
        c["arg"] = list(value)
    else:
        c["data"] = list(data)
    return c


def data_patterns(row, seed):
    w = row["width"]
    pats = [M.prng(seed * 31 + row["first"], w), [0x00] * w, [0xFF] * w, RM.tmask_pattern(w, False),
            [0x55] * w, [0xAA] * w, [(0x41 + i) & 0x7F for i in range(w)], [0x80] + [0x00] * (w - 1)]
    out = []
    for p in pats:
        if p not in out:
            out.append(p)
    return out


def values_for(row, seed):
    kind, w = row["kind"], row["width"]
    vals = []
    if kind in ("uint", "cct"):
        full = (1 << (8 * w)) - 1
        if row["signed"]:       # (only values declared by a program are signed)
            vals += [0, 1, -1, -(full >> 1) - 1, full >> 1, (full >> 1) - 1, -2,
                     int.from_bytes(bytes(M.prng(seed + 5, w)), "big", signed=True)]
        else:
            vals += [0, 1, full, full - 1, full >> 1, int.from_bytes(bytes(M.prng(seed + 5, w)), "big")]
    if kind == "string":
        vals += ["", "A", "ab" * (w // 2), "x" * w, "x" * (w - 1), "Hello"[:w]]
        # white space is text like any other: leading, inside, trailing (blank, tab, newline), a string of blanks
        vals += [("RAL 9016 ")[:w], ("x" * (w - 1) + " ")[:w], " lead"[:w], "a\tb\n"[:w], " " * min(w, 3)]
    if kind in ("uint", "cct", "fixed", "temp"):
        if row["mask"]:
            vals.append("MASK")
        if row["tmask"]:
            vals.append("TMASK")
    out = []
    for v in vals:
        if v not in out and ref_encode(row, v) is not None:
            out.append(v)
    return out


def _runner(res):
    def run(case, label):
        res.count()
        feats = features(case)
        inter = case.get("kind") == "interleaved"
        if not inter and is_nontrivial(case):
            res.nontrivial()
        for x in feats:
            res.label(x)
        res.label(label)
        vs = run_case(case)
        if inter and is_nontrivial(case):
            res.nontrivial()
        if LAST_OUTCOME[0]:
            res.label(LAST_OUTCOME[0])
        for sig, msg in vs:
            res.violation(sig, case, msg)
    return run


def _shard_keys(arg):
    keys, seed, quick = arg
    res = Result()
    run = _runner(res)
    for ki, key in enumerate(keys):
        row = M.all_rows()[key]
        if key not in M.lib()["classes"]:
            continue
        w = row["width"]
        locs = row["locs"]
        short = (seed * 5 + ki * 13 + row["first"]) % 64
        image = ["prng", seed * 7 + ki]
        pats = data_patterns(row, seed)

        def C(data, **kw):
            kw.setdefault("short", short)
            kw.setdefault("image", image)
            return _case(key, data, **kw)

        # wrong lengths (every value class)
        for n in sorted({0, w - 1, w + 1, 2 * w, w + 7} - {w}):
            for addr in ADDRS:
                run(C(M.prng(seed + n, n), addr=addr), "wrong-length")
                if n > w:
                    run(C(M.prng(seed + n, n), addr=addr, asw=True), "wrong-length")
        if not writable_row(row):
            for addr in ADDRS:
                for lock in LOCKS:
                    for fl in ({}, {"ignore_feedback": True}, {"force_unlock": True}, {"asw": True}):
                        run(C(pats[0], addr=addr, lock=lock, **fl), "read-only")
            run(C(pats[1][:1], asw=True), "read-only")
            for v in values_for(row, seed)[:3]:
                run(C(None, mode="value", value=v), "read-only")
            # ... also when the data is no byte string at all
            for bi, (spec, asw) in enumerate(bad_raws_for(row)[(seed + ki) % 4::4]):
                run(C(None, mode="badraw", value=spec, asw=asw, addr=ADDRS[(bi + ki) % 3], lock=LOCKS[bi % 3]), "read-only")
            # options handed over as objects that are not bools: refused all the same
            styles = M.spell_styles(True, seed + ki + row["first"])
            for si, (field, _) in enumerate(OPTIONS):
                for truth in (True, False):
                    run(C(pats[0], addr=ADDRS[(si + truth) % 3], lock=LOCKS[si], spell={field: styles[(si + 2 * truth + seed) % len(styles)]},
                          **{field: truth}), "read-only")
            continue
        # standard unit, no fault
        for pi, p in enumerate(pats):
            for ai, addr in enumerate(ADDRS):
                for lock in LOCKS:
                    run(C(p, addr=addr, lock=lock), "standard")
                    if not quick or (pi + ai) % 2 == 0:
                        run(C(p, addr=addr, lock=lock, ignore_feedback=True), "standard")
                        if 2 not in locs:
                            run(C(p, addr=addr, lock=lock, force_unlock=True), "standard")
        for img in M.IMAGES[:3]:
            run(C(pats[0], image=img, addr=ADDRS[ki % 3]), "standard")
        # short writes
        for n in range(1, w):
            if quick and w > 12 and n % 5 != seed % 5 and n not in (1, w - 1):
                continue
            run(C(pats[0][:n], asw=True, addr=ADDRS[n % 3], lock=LOCKS[n % 3]), "short-write")
        # the three options handed over as truthy / falsy objects that are not bools: each must act as bool(object) says.
        # A falsy object is passed explicitly, where its effect can be seen: feedback must still be heeded (unit that
        # does not advance DTR0, altered answer), the bank must not be unlocked, a short write must still be refused.
        for si, style in enumerate(M.spell_styles(quick, seed + row["first"] + ki)):
            addr, lock, p = ADDRS[si % 3], LOCKS[si % 3], pats[si % 2]
            one = {"ignore_feedback": style}
            run(C(p, addr=addr, lock=lock, ignore_feedback=True, spell=one), "option-spelling")
            run(C(p, addr=addr, lock=lock, spell=one, variant=["no_dtr0_inc"]), "option-spelling")
            if locs != [2]:
                run(C(p, addr=addr, lock=lock, spell=one, variant=["hole", [a for a in locs if a != 2][-1 - si % 2 if w > 2 else -1]]),
                    "option-spelling")
            run(C(p, addr=addr, lock=lock, spell=one, fault=[si % w, ("silence", "replace", "garble")[si % 3], 0x21]),
                "option-spelling")
            if not quick:
                run(C(p, addr=addr, lock=lock, spell=one), "option-spelling")
                run(C(p, addr=addr, lock=lock, spell=one, fault=[w, "replace", 0x01]), "option-spelling")
                if lockable_row(row):
                    run(C(p, addr=addr, lock=lock, spell=one, variant=["unlock_value", 0xAA]), "option-spelling")
            one = {"force_unlock": style}
            if 2 not in locs:
                # (an unlocked or oddly locked bank shows whether the write went through the unlock / re-lock steps)
                for lk in (LOCKS if not quick else (LOCKS[1 + si % 2],)):
                    run(C(p, addr=addr, lock=lk, force_unlock=True, spell=one), "option-spelling")
                    run(C(p, addr=addr, lock=lk, spell=one), "option-spelling")
            one = {"asw": style}
            run(C(p[:max(1, w - 1)], addr=addr, lock=lock, asw=True, spell=one), "option-spelling")
            run(C(p[:w - 1], addr=addr, lock=lock, spell=one), "option-spelling")
            if not quick:
                run(C(p, addr=addr, lock=lock, asw=True, spell=one), "option-spelling")
                run(C(p + [0x00], addr=addr, lock=lock, asw=True, spell=one), "option-spelling")
                run(C(p, addr=addr, lock=lock, spell=one), "option-spelling")
            # all three at once, another style each; and a value-level write
            st3 = M.SPELL_STYLES
            three = {"asw": style, "force_unlock": st3[(si + 1) % len(st3)], "ignore_feedback": st3[(si + 2) % len(st3)]}
            run(C(p, addr=addr, lock=lock, spell=three, variant=["no_dtr0_inc"]), "option-spelling")
            run(C(p[:max(1, w - 1)], addr=addr, lock=lock, asw=True, force_unlock=2 not in locs, ignore_feedback=True, spell=three),
                "option-spelling")
            vals = values_for(row, seed)
            if vals:
                two = {"force_unlock": style, "ignore_feedback": st3[(si + 1) % len(st3)]}
                run(C(None, mode="value", value=vals[si % len(vals)], addr=addr, lock=LOCKS[(si + 1) % 3], spell=two,
                      variant=["no_dtr0_inc"]), "option-spelling")
                run(C(None, mode="value", value=vals[si % len(vals)], addr=addr, lock=LOCKS[(si + 1) % 3], spell=two,
                      force_unlock=2 not in locs), "option-spelling")
        # value-level writes
        for vi, v in enumerate(values_for(row, seed)):
            for addr in ADDRS:
                run(C(None, mode="value", value=v, addr=addr, lock=LOCKS[vi % 3]), "value-level")
        # value-level writes of what the value cannot hold: numbers beyond its locations, other types, over-long or
        # non-ASCII text
        for bi, spec in enumerate(bad_values_for(row, seed)):
            k = bi + ki + seed
            fl = [{}, {}, {"ignore_feedback": True}, {"force_unlock": 2 not in locs}, {}][k % 5]
            run(C(None, mode="badvalue", value=spec, addr=ADDRS[k % 3], lock=LOCKS[(k // 3) % 3], **fl), "unstorable-value")
        # write_raw with something that is no byte string where the raw bytes belong (the number itself, None, text, a
        # float, a mapping, an iterator, nested lists, elements that are no byte values)
        for bi, (spec, asw) in enumerate(bad_raws_for(row)):
            k = bi + ki + seed
            fl = [{}, {}, {"ignore_feedback": True}, {"force_unlock": 2 not in locs}, {}][k % 5]
            run(C(None, mode="badraw", value=spec, asw=asw, addr=ADDRS[k % 3], lock=LOCKS[(k // 3) % 3], **fl), "unstorable-data")
        # unit variants
        variants = [["no_dtr0_inc"]]
        for uv in (0x00, 0xFF, 0x54, 0xAA, 0x56):
            variants.append(["unlock_value", uv])
        lo = 3 if lockable_row(row) else 0
        for last in range(lo, max(locs)):
            if quick and w > 12 and last % 7 != seed % 7 and last not in (lo, max(locs) - 1, min(locs) - 1, min(locs)):
                continue
            variants.append(["short_bank", last])
        for h in locs:
            if h != 2 and not (quick and w > 12 and h % 7 != seed % 7 and h not in (locs[0], locs[-1])):
                variants.append(["hole", h])
        for vi, v in enumerate(variants):
            for lock in (LOCKS if v[0] != "short_bank" else (LOCKS[vi % 3],)):
                addr = ADDRS[(vi + lock) % 3]
                run(C(pats[0], addr=addr, lock=lock, variant=v), "variant")
                run(C(pats[0], addr=addr, lock=lock, variant=v, ignore_feedback=True), "variant")
                if v[0] == "short_bank" and w > 1:
                    run(C(pats[0][:max(1, w // 2)], addr=addr, lock=lock, variant=v, asw=True), "variant")
        # two (three) writes of this value class in flight at once on separate buses, different data and units
        scheds = [("round-robin", [], [0, 1]), ("round-robin-reversed", [], [1, 0]), ("blocks-of-2", [], [0, 0, 1, 1]),
                  ("head-start-1", [0], [1, 0]), ("head-start-2", [0, 0], [1, 0]), ("head-start-3", [[0, 3]], [1, 0]),
                  ("head-start-5", [[0, 5]], [1, 0]), ("nested", [[0, 3], [1, 400]], [0]), ("sequential", [[0, 400]], [1])]
        for si, (name, sched, cyc) in enumerate(scheds):
            for pj in (1, 2):
                a = C(pats[0], addr=ADDRS[si % 3], lock=LOCKS[si % 3], image=["prng", seed * 7 + ki + 500])
                b = C(pats[(pj + si) % len(pats) or 1], addr=ADDRS[(si + pj) % 3], lock=LOCKS[(si + pj) % 3],
                      short=(short + pj) % 64, image=["prng", seed * 7 + ki + 900 + pj])
                run({"kind": "interleaved", "jobs": [a, b], "schedule": sched, "cycle": cyc}, "interleaved:" + name)
            vals = values_for(row, seed)
            if len(vals) >= 2:
                a = C(None, mode="value", value=vals[si % len(vals)], addr=ADDRS[si % 3])
                b = C(None, mode="value", value=vals[(si + 1) % len(vals)], addr=ADDRS[(si + 1) % 3], short=(short + 1) % 64,
                      image=["prng", seed * 7 + ki + 1300])
                run({"kind": "interleaved", "jobs": [a, b], "schedule": sched, "cycle": cyc}, "interleaved:value-level:" + name)
        if w > 1:
            a = C(pats[0], addr="gear")
            b = C(pats[1], addr="device", short=(short + 1) % 64, image=["prng", seed * 7 + ki + 1700])
            c = C(pats[0][:max(1, w // 2)], asw=True, addr="int", short=(short + 2) % 64, image=["prng", seed * 7 + ki + 1800])
            for cyc in ([0, 1, 2], [2, 1, 0], [0, 0, 1, 2, 2]):
                run({"kind": "interleaved", "jobs": [a, b, c], "schedule": [], "cycle": cyc}, "interleaved:three")
        # one fault of each kind at each query index (writes 0..w-1, DTR0 check w)
        for q in range(w + 1):
            if quick and w > 12 and q % 6 != seed % 6 and q not in (0, w - 1, w):
                continue
            for kind, x in (("silence", None), ("replace", 0x01), ("replace", 0xFF), ("garble", None)):
                addr = ADDRS[(q + len(kind)) % 3]
                run(C(pats[0], addr=addr, lock=LOCKS[q % 3], fault=[q, kind, x]), "fault")
                run(C(pats[0], addr=addr, lock=LOCKS[q % 3], fault=[q, kind, x], ignore_feedback=True), "fault")
        if w > 2:
            for kind, x in (("silence", None), ("replace", 0x10), ("garble", None)):
                run(C(pats[0][:2], asw=True, fault=[2, kind, x]), "fault")
    res.sample(_case("BANK_1.CCT", [0x0B, 0xB8], addr="device", lock=0xFF, fault=[1, "replace", 1]), cls="write with fault")
    res.sample(_case("BANK_1.LuminaireColor", [0x52, 0x41, 0x4C], asw=True, variant=["short_bank", 0x25]), cls="short write")
    return res


def _shard_family(arg):
    """The generated family of a program's own declarations (harness.ref_memory.family): every value that is not writeable
    - read-only, untyped or MIXED writeable + read-only locations - x every combination of the three options x addressing
    x lock byte must be refused before anything is sent; every writeable one goes through data patterns, short writes,
    value-level writes, what cannot be stored, every unit variant (DTR0 stuck, unlock values, bank ending below / a hole at
    each of its locations) and every fault kind at every write index and at the DTR0 check."""
    keys, seed, quick = arg
    res = Result()
    run = _runner(res)
    F = M.load_family(seed)
    fam = F["fam"]
    decl_of = {"%s.%s" % (d["bankobj"], d["name"]): d for d in fam["decls"]}
    combos = [dict(asw=bool(k & 1), force_unlock=bool(k & 2), ignore_feedback=bool(k & 4)) for k in range(8)]
    for ki, key in enumerate(keys):
        row = M.all_rows()[key]
        if key in F["errors"] or key not in M.lib()["classes"]:
            res.count()
            res.violation("C10:declared-by-program:declaration-refused", _case(key, [0] * row["width"]),
                          "a legal declaration of the generated family cannot be made: %s" % F["errors"].get(key, "no class"))
            continue
        for x in RM.family_features(fam, decl_of[key]):
            res.label("declared:" + x)
        w, locs = row["width"], row["locs"]
        j0 = seed * 5 + ki * 13 + row["first"]
        short = j0 % 64
        image = ["prng", seed * 7 + 2000 + ki]
        pats = data_patterns(row, seed)

        def C(data, **kw):
            kw.setdefault("short", short)
            kw.setdefault("image", image)
            return _case(key, data, **kw)

        for n in sorted({0, w - 1, w + 1, 2 * w, w + 7} - {w}):
            run(C(M.prng(seed + n, n), addr=ADDRS[(n + j0) % 3], lock=LOCKS[n % 3]), "declared:wrong-length")
            if n > w:
                run(C(M.prng(seed + n, n), addr=ADDRS[(n + j0 + 1) % 3], asw=True), "declared:wrong-length")
        if not writable_row(row):
            # every combination of the options, every addressing, every lock byte; full length and (where allowed) short
            for ci, fl in enumerate(combos):
                for ai, addr in enumerate(ADDRS):
                    run(C(pats[(ci + ai) % len(pats)], addr=addr, lock=LOCKS[(ci + ai) % 3], **fl), "declared:not-writeable")
                if w > 1 and fl["asw"]:
                    for n in sorted({1, w - 1}):
                        run(C(pats[0][:n], addr=ADDRS[(ci + n) % 3], lock=LOCKS[ci % 3], **fl), "declared:not-writeable")
            for v in values_for(row, seed)[:3]:
                run(C(None, mode="value", value=v, addr=ADDRS[j0 % 3]), "declared:not-writeable")
                run(C(None, mode="value", value=v, addr=ADDRS[(j0 + 1) % 3], force_unlock=True, ignore_feedback=True),
                    "declared:not-writeable")
            for bi, (spec, asw) in enumerate(bad_raws_for(row)[(seed + ki) % 6::6]):
                run(C(None, mode="badraw", value=spec, asw=asw, addr=ADDRS[(bi + ki) % 3], lock=LOCKS[bi % 3]), "declared:not-writeable")
            styles = M.spell_styles(True, seed + ki + row["first"])
            for si, (field, _) in enumerate(OPTIONS):
                for truth in (True, False):
                    run(C(pats[0], addr=ADDRS[(si + truth) % 3], lock=LOCKS[si], spell={field: styles[(si + 2 * truth + seed) % len(styles)]},
                          **{field: truth}), "declared:not-writeable")
            continue
        fu_ok = 2 not in locs
        for pi, p in enumerate(pats):
            for li, lock in enumerate(LOCKS):
                addr = ADDRS[(pi + li + j0) % 3]
                run(C(p, addr=addr, lock=lock), "declared:standard")
                if (pi + li) % 2 == 0:
                    run(C(p, addr=addr, lock=lock, ignore_feedback=True), "declared:standard")
                    run(C(p, addr=addr, lock=lock, force_unlock=fu_ok), "declared:standard")
                if (pi + li) % 3 == 0:
                    run(C(p, addr=addr, lock=lock, force_unlock=fu_ok, ignore_feedback=True, asw=True), "declared:standard")
        for n in range(1, w):
            run(C(pats[n % len(pats)][:n], asw=True, addr=ADDRS[n % 3], lock=LOCKS[n % 3], force_unlock=fu_ok and n % 2 == 0), "declared:short-write")
        for vi, v in enumerate(values_for(row, seed)):
            run(C(None, mode="value", value=v, addr=ADDRS[(vi + j0) % 3], lock=LOCKS[vi % 3]), "declared:value-level")
        for bi, spec in enumerate(bad_values_for(row, seed)[(seed + ki) % 3::3]):
            k = bi + j0
            fl = [{}, {}, {"ignore_feedback": True}, {"force_unlock": fu_ok}, {}][k % 5]
            run(C(None, mode="badvalue", value=spec, addr=ADDRS[k % 3], lock=LOCKS[(k // 3) % 3], **fl), "declared:unstorable-value")
        for bi, (spec, asw) in enumerate(bad_raws_for(row)[(seed + ki) % 4::4]):
            k = bi + j0
            fl = [{}, {}, {"ignore_feedback": True}, {"force_unlock": fu_ok}, {}][k % 5]
            run(C(None, mode="badraw", value=spec, asw=asw, addr=ADDRS[k % 3], lock=LOCKS[(k // 3) % 3], **fl), "declared:unstorable-data")
        # unit variants
        variants = [["no_dtr0_inc"], ["unlock_value", 0x00], ["unlock_value", 0xAA], ["unlock_value", (0x54, 0x56, 0xFF)[(seed + ki) % 3]]]
        lo = 3 if lockable_row(row) else 0
        for last in sorted({a - 1 for a in locs if a - 1 >= lo} | {lo}):
            if last < max(locs):
                variants.append(["short_bank", last])
        for h in locs:
            if h != 2:
                variants.append(["hole", h])
        for vi, v in enumerate(variants):
            for lock in (LOCKS if v[0] in ("no_dtr0_inc", "unlock_value") else (LOCKS[(vi + ki) % 3],)):
                addr = ADDRS[(vi + lock + j0) % 3]
                p = pats[(vi + lock) % 2]
                run(C(p, addr=addr, lock=lock, variant=v), "declared:variant")
                run(C(p, addr=addr, lock=lock, variant=v, ignore_feedback=True), "declared:variant")
                if v[0] == "no_dtr0_inc":
                    run(C(p, addr=addr, lock=lock, variant=v, force_unlock=fu_ok), "declared:variant")
                    for vv in values_for(row, seed)[:2]:
                        run(C(None, mode="value", value=vv, addr=addr, lock=lock, variant=v), "declared:variant")
                if v[0] == "short_bank" and w > 1:
                    run(C(p[:max(1, w // 2)], addr=addr, lock=lock, variant=v, asw=True), "declared:variant")
        # one fault of each kind at each query index (writes 0..w-1, DTR0 check w)
        for q in range(w + 1):
            for fi, (kind, x) in enumerate((("silence", None), ("replace", 0x01), ("replace", 0xFF), ("garble", None))):
                addr = ADDRS[(q + fi + j0) % 3]
                run(C(pats[0], addr=addr, lock=LOCKS[(q + fi) % 3], fault=[q, kind, x]), "declared:fault")
                if fi % 2 == q % 2:
                    run(C(pats[0], addr=addr, lock=LOCKS[q % 3], fault=[q, kind, x], ignore_feedback=True), "declared:fault")
                    run(C(pats[1], addr=addr, lock=LOCKS[q % 3], fault=[q, kind, x], force_unlock=fu_ok), "declared:fault")
        if w > 2:
            for kind, x in (("silence", None), ("replace", 0x10), ("garble", None)):
                run(C(pats[0][:2], asw=True, fault=[2, kind, x]), "declared:fault")
        # two writes of this value class in flight at once
        if ki % 3 == seed % 3:
            for name, sched, cyc in (("round-robin", [], [0, 1]), ("head-start-2", [0, 0], [1, 0]), ("nested", [[0, 3], [1, 400]], [0])):
                a = C(pats[0], addr=ADDRS[j0 % 3], lock=LOCKS[j0 % 3])
                b = C(pats[1], addr=ADDRS[(j0 + 1) % 3], lock=LOCKS[(j0 + 1) % 3], short=(short + 1) % 64, image=["prng", seed * 7 + ki + 4900])
                run({"kind": "interleaved", "jobs": [a, b], "schedule": sched, "cycle": cyc}, "declared:interleaved:" + name)
    return res


def _shard_family_hyp(arg):
    seed, fam_seed, n = arg
    res = Result()
    F = M.load_family(fam_seed)
    keys = [k for k in F["keys"] if k in M.lib()["classes"]]
    wkeys = [k for k in keys if writable_row(M.all_rows()[k])]
    rokeys = [k for k in keys if not writable_row(M.all_rows()[k])]
    if not wkeys or not rokeys:
        return res
    hyp.search(case_st(wkeys, rokeys), run_case, res, n, seed, ID, nontrivial=is_nontrivial,
               classify=lambda c: ["hyp:declared-by-program"] + features(c))
    hyp.search(badraw_st(wkeys, rokeys), run_case, res, max(1, n // 6), seed + 7, ID, nontrivial=is_nontrivial,
               classify=lambda c: ["hyp:declared-by-program:unstorable-data"] + features(c))
    return res


# ---------------------------------------------------------------------- Hypothesis ----
# mostly plain bools; else one to three of the options handed over in some other style
_SPELL_ST = st.one_of(st.none(), st.none(), st.none(), st.fixed_dictionaries(
    {}, optional={field: st.sampled_from(M.SPELL_STYLES) for field, _ in OPTIONS}))


@st.composite
def case_st(draw, wkeys, rokeys):
    key = draw(st.one_of(st.sampled_from(wkeys), st.sampled_from(wkeys), st.sampled_from(wkeys), st.sampled_from(rokeys)))
    row = M.all_rows()[key]
    w, locs = row["width"], row["locs"]
    wr = writable_row(row)
    addr = draw(st.sampled_from(ADDRS))
    short = draw(st.integers(0, 63))
    lock = draw(st.one_of(st.sampled_from(LOCKS), st.sampled_from(LOCKS), st.integers(0, 255)))
    image = draw(M.image_st().filter(lambda s: s != "default"))
    fl = dict(ignore_feedback=draw(st.sampled_from([False, False, False, True])),
              force_unlock=draw(st.sampled_from([False, False, False, True])) and 2 not in locs)
    vals = values_for(row, 1)
    if vals and draw(st.integers(0, 4)) == 0:
        if row["kind"] == "string":
            v = draw(st.one_of(st.sampled_from(vals), st.text(st.characters(min_codepoint=1, max_codepoint=127), max_size=w)))
        elif row["kind"] in ("uint", "cct"):
            v = draw(st.one_of(st.sampled_from(vals), st.integers(*number_range(row))))
        else:
            v = draw(st.sampled_from(vals))
        mode, data, asw = "value", None, False
    else:
        mode, v = "raw", None
        asw = draw(st.sampled_from([False, False, True]))
        ln = draw(st.one_of(st.just(w), st.just(w), st.just(w), st.integers(1, w) if asw else st.just(w),
                            st.integers(0 if (not asw or not wr) else 1, w + 3)))
        data = list(draw(st.one_of(st.binary(min_size=ln, max_size=ln), st.sampled_from(
            [bytes([0xFF] * ln), bytes([0x55] * ln), bytes([0xAA] * ln), bytes(ln)]))))
    variant = ["standard"]
    fault = None
    if wr:
        vk = draw(st.sampled_from(["standard", "standard", "standard", "unlock_value", "short_bank", "no_dtr0_inc", "hole"]))
        if vk == "unlock_value":
            variant = [vk, draw(st.integers(0, 255).filter(lambda x: x != 0x55))]
        elif vk == "short_bank":
            lo = 3 if (lockable_row(row) or fl["force_unlock"]) else 0
            if max(locs) - 1 >= lo:
                variant = [vk, draw(st.integers(lo, max(locs) - 1))]
        elif vk == "no_dtr0_inc":
            variant = [vk]
        elif vk == "hole" and locs != [2]:
            variant = [vk, draw(st.sampled_from([a for a in locs if a != 2]))]
        if draw(st.booleans()):
            kind = draw(st.sampled_from(["silence", "replace", "garble"]))
            fault = [draw(st.integers(0, w)), kind, draw(st.integers(1, 255)) if kind == "replace" else None]
    spell = draw(_SPELL_ST)
    return _case(key, data, addr=addr, short=short, lock=lock, mode=mode, value=v, asw=asw, variant=variant, fault=fault,
                 image=image, spell=spell, **fl)


@st.composite
def bad_st(draw, wkeys):
    """A value-level write of something the value cannot hold."""
    keys = [k for k in wkeys if M.all_rows()[k]["kind"] in ("uint", "cct", "string", "fixed", "temp")]
    key = draw(st.sampled_from(keys))
    row = M.all_rows()[key]
    w, kind = row["width"], row["kind"]
    listed = st.sampled_from(bad_values_for(row, 1))
    if kind == "string":
        ascii_ = st.characters(min_codepoint=1, max_codepoint=127)
        spec = draw(st.one_of(
            listed,
            st.text(ascii_, min_size=w + 1, max_size=w + 40).map(lambda t: ["str", t]),
            st.tuples(st.text(ascii_, max_size=w - 1), st.characters(min_codepoint=0x80, max_codepoint=0x2FFF, exclude_categories=["Cs"]),
                      st.text(ascii_, max_size=w - 1)).map(lambda t: ["str", (t[0] + t[1] + t[2])[:max(len(t[0]) + 1, w)]]),
            st.integers(-300, 300).map(lambda n: ["int", n]),
            st.binary(max_size=w).map(lambda b: ["bytes", b.hex()])))
    elif kind in ("uint", "cct"):
        lo, hi = number_range(row)
        spec = draw(st.one_of(
            listed,
            st.integers(1, 1 << 70).map(lambda d: ["int", hi + d]), st.integers(1, 1 << 70).map(lambda d: ["int", lo - d]),
            st.integers(1, 300).map(lambda d: ["int", hi + d]), st.integers(1, 300).map(lambda d: ["int", lo - d]),
            st.floats(allow_nan=False, allow_infinity=False, width=32).map(lambda x: ["float", x]),
            st.text(st.characters(min_codepoint=0x20, max_codepoint=0x7E), max_size=6).filter(
                lambda t: t not in ("MASK", "TMASK")).map(lambda t: ["str", t])))
    else:
        spec = draw(listed)
    if bad_category(row, spec) is None:
        spec = draw(listed)
    fl = dict(ignore_feedback=draw(st.sampled_from([False, False, True])),
              force_unlock=draw(st.sampled_from([False, False, True])) and 2 not in row["locs"])
    return _case(key, None, addr=draw(st.sampled_from(ADDRS)), short=draw(st.integers(0, 63)),
                 lock=draw(st.sampled_from(LOCKS)), mode="badvalue", value=spec,
                 image=draw(st.sampled_from([["prng", 1], ["prng", 2], "ff", "00", "ramp"])), spell=draw(_SPELL_ST), **fl)


@st.composite
def badraw_st(draw, wkeys, rokeys):
    """write_raw with an object that is no byte string."""
    key = draw(st.one_of(st.sampled_from(wkeys), st.sampled_from(wkeys), st.sampled_from(wkeys), st.sampled_from(rokeys)))
    row = M.all_rows()[key]
    w = row["width"]
    listed = st.sampled_from(bad_raws_for(row))
    byte = st.integers(0, 255)
    notbyte = st.one_of(st.sampled_from([256, -1, 1.5, None, "a", "", [1], [], 1 << 70, -256, 0.0]), st.integers(256, 70000),
                        st.integers(-70000, -1), st.floats(allow_nan=False, allow_infinity=False, width=32),
                        st.text(st.characters(min_codepoint=0x20, max_codepoint=0x7E), max_size=2), st.lists(byte, max_size=3))
    ln = st.one_of(st.just(w), st.just(w), st.integers(1, w + 2))

    @st.composite
    def spoiled(draw_):
        n = draw_(ln)
        items = draw_(st.lists(byte, min_size=n, max_size=n))
        for _ in range(draw_(st.integers(1, 2))):
            items[draw_(st.integers(0, n - 1))] = draw_(notbyte)
        return [draw_(st.sampled_from(["list", "tuple", "list", "gen"])), items]
    spec, asw = draw(st.one_of(
        listed,
        st.tuples(st.one_of(st.integers(-3, w + 9).map(lambda n: ["int", n]), st.integers(0, 300).map(lambda n: ["int", n]),
                            st.floats(allow_nan=False, allow_infinity=False, width=32).map(lambda x: ["float", x]),
                            st.text(st.characters(min_codepoint=1, max_codepoint=0x7E), min_size=1, max_size=w + 2).map(lambda t: ["str", t]),
                            spoiled(),
                            st.tuples(st.sampled_from(["gen", "iter"]), st.lists(byte, min_size=1, max_size=w + 2)).map(list)),
                  st.booleans())))
    if raw_category(spec) is None:
        spec, asw = draw(listed)
    fl = dict(ignore_feedback=draw(st.sampled_from([False, False, True])),
              force_unlock=draw(st.sampled_from([False, False, True])) and 2 not in row["locs"])
    return _case(key, None, addr=draw(st.sampled_from(ADDRS)), short=draw(st.integers(0, 63)),
                 lock=draw(st.sampled_from(LOCKS)), mode="badraw", value=spec, asw=asw,
                 image=draw(st.sampled_from([["prng", 1], ["prng", 2], "ff", "00", "ramp"])), spell=draw(_SPELL_ST), **fl)


@st.composite
def inter_st(draw, wkeys, rokeys):
    """Two or three writes in flight: the first drawn freely, the others mostly of the same value class with other data,
    another unit image, address and lock byte; plus the order in which they advance."""
    a = draw(case_st(wkeys, rokeys))
    jobs = [a]
    for i in range(draw(st.sampled_from([1, 1, 1, 2]))):
        if draw(st.integers(0, 4)) == 0:
            jobs.append(draw(case_st(wkeys, rokeys)))
            continue
        b = dict(a)
        b["short"] = draw(st.integers(0, 63))
        b["addr"] = draw(st.sampled_from(ADDRS))
        b["lock"] = draw(st.sampled_from(LOCKS))
        b["image"] = draw(M.image_st().filter(lambda s: s != "default"))
        if a["mode"] == "raw":
            ln = len(a["data"])
            b["data"] = list(draw(st.binary(min_size=ln, max_size=ln)))
        else:
            vals = [v for v in values_for(M.all_rows()[a["key"]], 1)]
            b["value"] = draw(st.sampled_from(vals)) if vals else a["value"]
        if draw(st.booleans()):
            b["fault"] = None
        jobs.append(b)
    n = len(jobs)
    sched = draw(st.lists(st.one_of(st.integers(0, n - 1), st.tuples(st.integers(0, n - 1), st.integers(1, 12)).map(list)),
                          max_size=10))
    cycle = draw(st.one_of(st.just([]), st.lists(st.integers(0, n - 1), min_size=1, max_size=5)))
    return {"kind": "interleaved", "jobs": jobs, "schedule": sched, "cycle": cycle}


def _shard_hyp(arg):
    seed, n = arg
    res = Result()
    keys = [k for k in sorted(M.lib()["classes"]) if RM.family_of_key(k) is None]       # (the family has a search of its own)
    wkeys = [k for k in keys if writable_row(M.all_rows()[k])]
    rokeys = [k for k in keys if not writable_row(M.all_rows()[k])]
    hyp.search(case_st(wkeys, rokeys), run_case, res, n, seed, ID, nontrivial=is_nontrivial,
               classify=lambda c: ["hyp"] + features(c), extra_rounds_budget_s=15.0)
    hyp.search(inter_st(wkeys, rokeys), run_case, res, max(1, n // 6), seed + 3, ID, nontrivial=is_nontrivial,
               classify=lambda c: ["hyp:interleaved"] + features(c), extra_rounds_budget_s=15.0)
    hyp.search(bad_st(wkeys), run_case, res, max(1, n // 10), seed + 5, ID, nontrivial=is_nontrivial,
               classify=lambda c: ["hyp:unstorable-value"] + features(c))
    hyp.search(badraw_st(wkeys, rokeys), run_case, res, max(1, n // 10), seed + 7, ID, nontrivial=is_nontrivial,
               classify=lambda c: ["hyp:unstorable-data"] + features(c))
    return res


def _dispatch(packed):
    fn, arg = packed
    return fn(arg)


def run(ctx):
    q, s = ctx.quick, ctx.seed
    rows = M.all_rows()
    keys = [k for k in sorted(rows) if RM.family_of_key(k) is None]
    wkeys = [k for k in keys if writable_row(rows[k])]
    rokeys = [k for k in keys if not writable_row(rows[k])]
    shards = []
    # heavy (wide) values alone, the rest in small groups
    wkeys.sort(key=lambda k: -rows[k]["width"])
    for k in wkeys:
        if rows[k]["width"] > 6:
            shards.append((_shard_keys, ([k], s, q)))
    rest = [k for k in wkeys if rows[k]["width"] <= 6]
    for i in range(0, len(rest), 3):
        shards.append((_shard_keys, (rest[i:i + 3], s, q)))
    for i in range(0, len(rokeys), 10):
        shards.append((_shard_keys, (rokeys[i:i + 10], s, q)))
    for k in range(16):
        shards.append((_shard_hyp, (s * 1000 + k, 900 if q else 9000)))
    # a program's own declarations: the generated family of this seed (declared before the workers are forked)
    F = M.load_family(s)
    fkeys = sorted(F["keys"], key=lambda k: -rows[k]["width"] * writable_row(rows[k]))
    per = 4
    for i in range(0, len(fkeys), per):
        shards.append((_shard_family, (fkeys[i:i + per], s, q)))
    for k in range(4 if q else 16):
        shards.append((_shard_family_hyp, (s * 1000 + 600 + k, s, 200 if q else 3000)))
    ctx.pmap(_dispatch, shards)
    ctx.result.exhaustive = False
    ctx.result.extra["declared_by_program"] = {
        "family_seed": s, "values": len(F["keys"]), "writeable": sum(1 for k in F["keys"] if writable_row(rows[k])),
        "not_writeable_mixed": sum(1 for k in F["keys"] if not writable_row(rows[k]) and any(t in RM.WRITABLE_TYPES for t in rows[k]["memtype"])),
        "declaration_errors": dict(F["errors"])}
    ctx.result.extra["writable_value_classes"] = len(wkeys)
    ctx.result.extra["read_only_value_classes"] = len(rokeys)
    L = M.lib()
    ctx.result.extra["value_classes_matched"] = len(L["classes"])
    ctx.result.extra["value_classes_unmatched"] = list(L["unmatched_classes"])
