"""Scenario runner shared by the driver properties (C15, C16, C17, C20).

A scenario is a JSON-serialisable case: a driver name, a list of callers (single sends, sequences,
manual transactions) with start times, optional cancellation times and scripted exceptions, the bus
outcome of every command, latency draws for the gateway model, unsolicited reports, and device-loss /
restore events.  run() builds the real driver on the virtual-time loop, plays the timeline as a
discrete-event simulation, drains it, and returns plain observations for the property's oracle.
"""
import asyncio
import logging

logging.disable(logging.CRITICAL)      # the drivers log every injected fault at ERROR/CRITICAL level (see harness/verbose.py)

from harness.gateways import HidSim, tri_report, MODE_OBSERVE, MODE_RESPONSE, R_DALI8, R_DALI16, R_DALI24, R_INFO, \
    R_NO_FRAME, BUS_FRAMING_ERROR, BUS_OK
from harness.gateways_serial import SerialSim
from harness import ref_wire as RW

HID = ("tridonic", "hasseb")
SERIAL = ("luba", "sci")


class ScriptedError(Exception):
    pass


# ---------------------------------------------------------------- commands ----
KINDS_16 = ["dapc", "off", "reset", "qlevel", "qpresent", "qstatus", "qdtr0", "dtcmd", "dttwice", "dtquery", "dtquery8"]
KINDS_24 = ["q24", "q24yn", "c24twice", "c24plain"]


def build_cmd(spec):
    """spec: {"k": kind, "a": address 0..63, "p": optional parameter}"""
    from dali import address
    from dali.gear import general as g
    from dali.gear import colour, led
    from dali.device import general as d
    k, a = spec["k"], spec.get("a", 0)
    if k == "dapc":
        return g.DAPC(a, spec.get("p", 128))
    if k == "off":
        return g.Off(a)
    if k == "reset":
        return g.Reset(a)
    if k == "qlevel":
        return g.QueryActualLevel(a)
    if k == "qpresent":
        return g.QueryControlGearPresent(a)
    if k == "qstatus":
        return g.QueryStatus(a)
    if k == "qdtr0":
        return g.QueryContentDTR0(a)
    if k == "dtcmd":
        return colour.Activate(a)
    if k == "dttwice":
        return colour.StoreColourTemperatureTcLimit(a)
    if k == "dtquery":
        return led.QueryGearType(a)
    if k == "dtquery8":
        return colour.QueryColourStatus(a)
    if k in ("appdt", "appdtq"):
        # commands of a device type the APPLICATION defines (the way the library's own gear modules do), after the
        # drivers were imported: they need their ENABLE DEVICE TYPE prefix like any other
        return _app_classes()[k](a)
    if k == "edt":
        # an ENABLE DEVICE TYPE the caller's own sequence yields (for a device type no command of the pools uses)
        return g.EnableDeviceType(100 + a)
    if k == "q24":
        return d.QueryNumberOfInstances(address.DeviceShort(a))
    if k == "q24yn":
        return d.QueryResetState(address.DeviceShort(a))
    if k == "c24twice":
        return d.StartQuiescentMode(address.DeviceShort(a))
    if k == "c24plain":
        return d.IdentifyDevice(address.DeviceShort(a)) if not d.IdentifyDevice.sendtwice else d.DTR0(a)
    raise ValueError(k)


_APP = {}


def _app_classes():
    if not _APP:
        from dali.gear.general import _StandardCommand
        from dali.command import YesNoResponse

        class _AppType7Command(_StandardCommand):
            devicetype = 7

        class AppType7Store(_AppType7Command):
            _cmdval = 0xE1

        class AppType7Query(_AppType7Command):
            _cmdval = 0xF0
            response = YesNoResponse
        _APP.update(appdt=AppType7Store, appdtq=AppType7Query)
    return _APP


def frame_key(cmd):
    return (len(cmd.frame), cmd.frame.as_integer)


# -------------------------------------------------------------------- sims ----
def make_sim(case):
    drv = case["driver"]
    if drv in HID:
        sim = HidSim(drv, initial_seq=case.get("seq0", 1), reconnect_interval=case.get("reconnect_interval", 1),
                     reconnect_limit=case.get("reconnect_limit"), exceptions_on_send=case.get("exceptions", True),
                     present=case.get("present_at_start", True), dev_inst_map=case.get("_dev_inst_map"),
                     glob=case.get("glob", False), status_neighbours=case.get("status_neighbours"))
    else:
        sim = SerialSim(drv)
    sim.latencies = list(case.get("lat", []))
    if hasattr(sim, "coalesce"):
        sim.coalesce = list(case.get("coalesce", []))
        sim.splits = [tuple(x) for x in case.get("splits", [])]
        sim.tx_errors = list(case.get("sci_tx_errors", [])) if drv == "sci" else []
    return sim


def connect(sim, case):
    if case["driver"] in HID:
        sim.connect()
        sim.handshake()
        return sim.driver.connected.is_set()
    return sim.connect()


def locks_state(sim, drv):
    """Names of locks / slots still taken."""
    held = []
    d = sim.driver
    if d.transaction_lock.locked():
        held.append("transaction_lock")
    if drv == "tridonic":
        if d._command_semaphore._value != 2:
            held.append("command_semaphore(%d free of 2)" % d._command_semaphore._value)
        if d._outstanding:
            held.append("outstanding slots %r" % sorted(d._outstanding))
    elif drv == "hasseb":
        if d._command_lock.locked():
            held.append("command_lock")
    else:
        if sim.protocol is not None and sim.protocol._tx_lock.locked():
            held.append("tx_lock")
    return held


def describe_response(r):
    """JSON description of what send() returned."""
    from dali import command, frame
    if r is None:
        return {"type": None}
    if isinstance(r, command.Response):
        rv = r.raw_value
        if rv is None:
            raw = ["none"]
        elif isinstance(rv, frame.BackwardFrame):
            raw = ["error" if rv.error else "value", rv.as_integer]
        else:
            raw = ["other", repr(rv)]
        return {"type": type(r).__module__ + "." + type(r).__qualname__, "raw": raw}
    return {"type": "NOT-A-RESPONSE:" + type(r).__name__, "raw": ["other", repr(r)[:80]]}


def vandalise_answer(r):
    """The caller edits the frame of an answer it received (frames are mutable objects): nobody else's business."""
    try:
        f = r.raw_value
        f[7:0] = (~f.as_integer) & 0xFF
    except Exception:  # noqa - no frame / read-only
        pass


# ----------------------------------------------------------------- callers ----
def _sequence(sim, cspec, cmds, rec):
    from dali import sequences
    try:
        for i, c in enumerate(cspec["cmds"]):
            if cspec.get("raise_at") == i:
                raise ScriptedError("scripted failure at step %d" % i)
            if c["k"] == "sleep":
                x = yield sequences.sleep(c["d"])
                if x is not None:
                    rec.setdefault("marker_got", []).append(describe_response(x))
            elif c["k"] == "progress":
                x = yield sequences.progress(message="step %d" % i)
                if x is not None:
                    rec.setdefault("marker_got", []).append(describe_response(x))
            else:
                r = yield cmds[i]
                rec["results"].append(describe_response(r))
                if cspec.get("vandal"):
                    vandalise_answer(r)
        if cspec.get("raise_at") == len(cspec["cmds"]):
            raise ScriptedError("scripted failure at the end")
        return "seq-done"
    except GeneratorExit:
        # closed half-way (the caller was cancelled, or a command failed): a sequence with cleanup of its own
        # that fails - the driver must still hand the bus to the next caller
        if cspec.get("bad_close"):
            rec["cleanup_raised"] = True
            raise ScriptedError("scripted failure in the sequence's cleanup")
        raise
    finally:
        rec["closed"] = True


async def _caller(sim, cspec, cmds, rec):
    d = sim.driver
    kind = cspec["kind"]
    if kind == "send":
        kw = {}
        if "exceptions" in cspec:
            kw["exceptions"] = cspec["exceptions"]
        r = await d.send(cmds[0], **kw)
        rec["results"].append(describe_response(r))
        if cspec.get("vandal"):
            vandalise_answer(r)
    elif kind == "seq":
        rec["closed"] = False
        prog = []
        gen = _sequence(sim, cspec, cmds, rec)
        rec["_gen"] = gen
        r = await d.run_sequence(gen, progress=prog.append)
        rec["returned"] = r
        rec["progress"] = len(prog)
    elif kind == "txn":
        async with d.transaction_lock:
            for i, c in enumerate(cspec["cmds"]):
                if c["k"] == "sleep":
                    await asyncio.sleep(c["d"])
                elif c["k"] == "progress":
                    continue
                elif c["k"] == "power":
                    # the interface's bus power supply switched inside the caller's own transaction
                    kwp = {"exceptions": cspec["exceptions"]} if "exceptions" in cspec else {}
                    await d.power_supply(bool(c.get("on", True)), in_transaction=True, **kwp)
                else:
                    if cspec.get("raise_at") == i:
                        raise ScriptedError("scripted failure at step %d" % i)
                    kw = {"exceptions": cspec["exceptions"]} if "exceptions" in cspec else {}
                    r = await d.send(cmds[i], in_transaction=True, **kw)
                    rec["results"].append(describe_response(r))
                    if cspec.get("vandal"):
                        vandalise_answer(r)
    elif kind == "par":
        # several sends in flight at once inside one transaction (the Tridonic driver keeps up to two
        # commands outstanding at the gateway; answers are routed by sequence number)
        async with d.transaction_lock:
            real = [c for c in cmds if c is not None]
            rs = await asyncio.gather(*[d.send(c, in_transaction=True) for c in real])
            for r in rs:
                rec["results"].append(describe_response(r))
    else:
        raise ValueError(kind)


def run(case, hooks=None):
    """Play a scenario; returns observations (dict).  hooks: optional dict of callables
    {"after_connect": f(sim), "before_drain": f(sim)} used by individual properties.
    About one scenario in three (or as case["verbose"] says) runs with the library's logging at its most verbose
    level (harness/verbose.py): what the library does must not depend on who listens to its log."""
    from harness import verbose
    verbose.set(case["verbose"] if "verbose" in case else verbose.derived(case))
    try:
        return _run(case, hooks)
    finally:
        verbose.set(False)


def _run(case, hooks=None):
    hooks = hooks or {}
    drv = case["driver"]
    sim = make_sim(case)
    obs = {"driver": drv}
    try:
        recs = []
        callers = []
        expected_tag = {}
        for ci, cspec in enumerate(case["callers"]):
            cmds = []
            for c in cspec["cmds"]:
                if c["k"] in ("sleep", "progress", "power"):
                    cmds.append(None)
                    continue
                cmd = build_cmd(c)
                cmds.append(cmd)
                sim.note(cmd)
                if "oc" in c:
                    sim.expect(cmd, tuple(c["oc"]))
                expected_tag[frame_key(cmd)] = ci
            rec = {"results": [], "status": "not-started"}
            recs.append(rec)
            callers.append((cspec, cmds, rec))
        tasks = {}
        t_pre = sim.loop.time()
        for ci, (cspec, cmds, rec) in enumerate(callers):
            if cspec.get("before_connect"):
                # the program starts using the driver before connect() was called / has finished
                rec["status"] = "running"
                rec["t_start"] = -1.0
                tasks[ci] = sim.start(_caller(sim, cspec, cmds, rec), tag=ci)
                tasks[ci].add_done_callback(lambda _t, rec=rec: rec.__setitem__("t_done", sim.loop.time() - t_pre))
        if tasks:
            sim.loop.settle()
        obs["connected"] = connect(sim, case)
        if "after_connect" in hooks:
            hooks["after_connect"](sim)
        # timeline of external events
        t0 = sim.loop.time()
        events = []
        for ci, (cspec, cmds, rec) in enumerate(callers):
            if cspec.get("before_connect"):
                continue
            events.append((cspec.get("t0", 0.0), 0, "start", ci))
            if cspec.get("cancel") is not None:
                events.append((cspec["cancel"], 1, "cancel_wr" if cspec.get("cancel_with_report") else "cancel", ci))
        for ev in case.get("events", []):
            events.append((ev["t"], 2, ev["what"], ev))
        for inj in case.get("inject", []):
            events.append((inj["t"], 3, "inject", inj))
        events.sort(key=lambda e: (e[0], e[1]))
        tie = case.get("tie", True)
        handled = set()
        for ei, (t, _, what, arg) in enumerate(events):
            if ei in handled:
                continue
            sim.run_until(t0 + t, chunk_first=tie)
            if what == "start":
                cspec, cmds, rec = callers[arg]
                rec["status"] = "running"
                rec["t_start"] = t
                tasks[arg] = sim.start(_caller(sim, cspec, cmds, rec), tag=arg)
                tasks[arg].add_done_callback(lambda _t, rec=rec: rec.__setitem__("t_done", sim.loop.time() - t0))
            elif what == "cancel":
                if arg in tasks and not tasks[arg].done():
                    tasks[arg].cancel()
                    recs[arg]["cancel_requested"] = True
            elif what == "cancel_wr":
                # the caller's own timeout fires in the very loop iteration in which the next gateway report is read
                # (the loop was busy for a moment: reader callback first, then the timer): the task is cancelled while
                # it has already been woken by that report
                if arg in tasks and not tasks[arg].done():
                    if sim.gw.pending and sim.deliver():
                        sim.loop.call_soon(tasks[arg].cancel)
                        recs[arg]["cancel_coincides_with_report"] = True
                    else:
                        tasks[arg].cancel()
                    recs[arg]["cancel_requested"] = True
            elif what == "inject":
                rep = make_report(drv, arg)
                if arg.get("split") and drv not in HID and len(rep) > 1:
                    # the frame reaches the host in two reads, `gap` seconds apart
                    k, gap = arg["split"]
                    k = 1 + (k - 1) % (len(rep) - 1)
                    sim.inject(rep[:k], at=sim.loop.time())
                    sim.inject(rep[k:], at=sim.loop.time() + gap)
                else:
                    sim.inject(rep, at=sim.loop.time())
            elif what == "lose":
                sim.lose(notify=arg.get("notify", True), eof=arg.get("eof", False))
            elif what == "write_fails":
                if arg.get("nth"):
                    sim.gw.fail_write_in = arg["nth"]       # the n-th write from now fails (and every later one)
                else:
                    sim.gw.write_fails = True
            elif what == "hup":
                if sim.gw.fd is not None:
                    sim.loop.fire_reader(sim.gw.fd)
            elif what == "block":
                # the application keeps the event loop busy for d seconds (synchronous work): reports that became
                # readable meanwhile and timers that came due are handled in the same pass afterwards - I/O first
                for ej in range(ei + 1, len(events)):
                    t2, _o, what2, arg2 = events[ej]
                    if what2 == "inject" and t2 <= t + arg["d"]:
                        # what the gateway reports during the blockage becomes readable at its own time
                        sim.inject(make_report(drv, arg2), at=t0 + t2)
                        handled.add(ej)
                sim.loop.advance(arg["d"])
                if drv in HID and hasattr(sim.loop, "step"):
                    # everything that became readable sits in the device node now: the loop's reader callback takes ONE
                    # report per iteration and is called again in the next iteration while data remains (what tasks and
                    # callbacks were woken by the previous report run in between, as on CPython's loop)
                    first = True
                    while sim.gw.pending and sim.gw.pending[0][0] <= sim.loop.time():
                        if not first:
                            sim.loop.step()
                        if not sim.deliver():
                            break
                        first = False
                elif sim.gw.pending and sim.gw.pending[0][0] <= sim.loop.time():
                    sim.deliver()
            elif what == "app_connect":
                # the application asks the driver to connect again (e.g. after 'failed' was reported)
                sim.loop.call_soon(sim.driver.connect)
                obs.setdefault("app_connect_calls", []).append(sim.loop.time())
            elif what == "restore":
                sim.restore()
                if arg.get("renamed") and hasattr(sim.gw, "node"):
                    sim.gw.node += 1          # USB re-enumeration: the device node has another number now
            elif what == "mute":
                sim.gw.mute = True
                if arg.get("cut", True):
                    # silent from NOW on: what the gateway had not yet put on the line is never sent
                    now = sim.loop.time()
                    sim.gw.pending = [p for p in sim.gw.pending if p[0] <= now]
            elif what == "mute_mid":
                # the gateway falls silent in the MIDDLE of its next packet: k bytes still arrive
                sim.gw.mute_after_bytes = arg.get("bytes", 1)
            elif what == "mute_answers":
                sim.gw.mute_answers = True
            elif what == "unmute":
                sim.gw.mute = sim.gw.mute_answers = False
                sim.gw.cut = False
            elif what == "call":
                hooks["call"](sim, arg)
            sim.loop.settle()
        if "before_drain" in hooks:
            hooks["before_drain"](sim)
        obs["drain_rounds"] = sim.drain(chunk_first=tie, max_virtual=case.get("drain_virtual", 120.0))
        if case.get("horizon"):
            # keep the world running (reconnect timers, late reports) up to a fixed virtual time
            sim.run_until(t0 + case["horizon"], chunk_first=tie, max_rounds=20000)
            sim.drain(chunk_first=tie, max_virtual=1.0)
        obs["t_end"] = sim.loop.time() - t0
        for ci, rec in enumerate(recs):
            t = tasks.get(ci)
            if t is None:
                continue
            if not t.done():
                rec["status"] = "pending"
            elif t.cancelled():
                rec["status"] = "cancelled"
            elif t.exception() is not None:
                e = t.exception()
                rec["status"] = "raised"
                rec["exception"] = type(e).__name__
                rec["exception_repr"] = repr(e)[:200]
                rec["_exc"] = e
            else:
                rec["status"] = "ok"
        import inspect
        for rec in recs:
            if "_gen" in rec:
                # GEN_CREATED: never started (caller cancelled while waiting for the lock); GEN_CLOSED: closed;
                # GEN_SUSPENDED: abandoned half-way - its finally blocks never ran
                rec["gen_state"] = inspect.getgeneratorstate(rec.pop("_gen"))
        obs["callers"] = recs
        obs["wire"] = [w for w in sim.gw.wire]
        obs["tags"] = {"%d:%d" % k: v for k, v in expected_tag.items()}
        obs["locks_held"] = locks_state(sim, drv)
        obs["loop_exceptions"] = [repr(c.get("exception") or c.get("message"))[:300] for c in sim.loop.exceptions]
        if drv in HID:
            obs["status_log"] = list(sim.status)
            obs["traffic"] = list(sim.traffic)
            obs["opens"] = sim.gw.opens
        obs["coalesced_reads"] = getattr(sim, "coalesced", 0)
        obs["split_reads"] = getattr(sim, "split_reads", 0)
        obs["_sim"] = sim
        if "inspect" in hooks:
            hooks["inspect"](sim, obs)
        return obs
    finally:
        sim.close()


def make_report(drv, inj):
    """Unsolicited gateway report from a JSON description:
    {"kind": "forward"|"backward"|"error"|"noframe"|"busok"|"stale-answer"|"idle"|"stale-info", ...}"""
    k = inj["kind"]
    if k == "noise":
        # line noise while the line is idle: a stray byte (for LUBA the frame-start byte itself)
        return bytes.fromhex(inj.get("data", "59" if drv == "luba" else "00"))
    if k == "damaged":
        # a gateway packet damaged on the way to the host (serial line noise): no bus frame at all
        if drv == "luba":
            return RW.luba_frame(0x33, [9, 0], bad_checksum=inj.get("value", 1) or 1)
        if drv == "sci":
            return RW.sci_frame(0x30, 0, 0, 0, bad_checksum=inj.get("value", 1) or 1)
        return None
    if drv == "tridonic":
        mode = MODE_RESPONSE if inj.get("as_own") else MODE_OBSERVE
        seq = inj.get("seq", 0)
        # the report's "interval" field (time since the previous frame, in the gateway's own unit) is whatever the
        # gateway measured: any 16-bit value; what a report denotes does not depend on it
        iv = inj.get("interval", (int(inj.get("value", 0)) * 7919 + 0x0141) & 0xFFFF)
        if k == "forward":
            return tri_report(mode, R_DALI24 if inj["bits"] == 24 else R_DALI16, inj["value"], seq, iv)
        if k in ("backward", "stale-answer"):
            return tri_report(mode if k == "backward" else MODE_RESPONSE, R_DALI8, inj["value"], seq, iv)
        if k == "error":
            return tri_report(mode, R_INFO, BUS_FRAMING_ERROR, seq)
        if k == "noframe":
            return tri_report(mode, R_NO_FRAME, 0, seq)
        if k == "busok":
            return tri_report(mode, R_INFO, BUS_OK, seq)
    elif drv == "hasseb":
        if k == "idle":
            return bytes([0, 0])
        if k == "stale-answer":
            return bytes([2, inj["value"]])
    elif drv == "luba":
        if k == "forward":
            nb = inj["bits"] // 8
            return RW.luba_event_received(list(inj["value"].to_bytes(nb, "big")))
        if k in ("backward", "stale-answer"):
            return RW.luba_event_received([inj["value"]])
        if k == "error":
            return RW.luba_event((2 << 6) | 63, [])
        if k == "txerr":
            # ADD DALI FRAME response carrying an error code only (type 0x33, one payload byte): yields no item
            return RW.luba_frame(0x33, [inj.get("code", 3)])
    elif drv == "sci":
        if k == "forward":
            nb = inj["bits"] // 8
            b = [0] * (3 - nb) + list(inj["value"].to_bytes(nb, "big"))
            return RW.sci_frame(0x30 | (3 if inj["bits"] == 16 else 8), b[0], b[1], b[2])
        if k in ("backward", "stale-answer"):
            return RW.sci_frame(0x30 | 2, 0, 0, inj["value"])
        if k == "error":
            return RW.sci_frame(0x30 | 7, 0, 0, 3)
        if k == "stale-info":
            return RW.sci_frame(0x30 | inj.get("code", 0), 0, 0, 0)
    raise ValueError("no %s report for %s" % (k, drv))
