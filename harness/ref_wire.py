"""Reference wire formats of the DALI gateways spoken to by dali.driver.* (C18) and reference
deframers of the two Lunatone serial protocols (C19).

Hand-written from the protocol descriptions (driver docstrings/comments, the vendors' public protocol
notes as far as I know them, daliserver's README).  This module does NOT import `dali`; frames are
(bits, value) pairs or byte lists, decoded reports are small dicts.

Conventions
  * a DALI frame is (bits, value): `value` is the frame as an unsigned integer, MSB transmitted first;
    `frame_bytes(bits, value)` is its big-endian byte string of ceil(bits/8) bytes.
  * decoders return {"kind": ...} with kind in
        "backward"      clean 8-bit backward frame, "value"
        "no-answer"     the gateway says nothing was received
        "framing-error" something was received but was not a clean frame
        "forward"       a forward frame seen/sent on the bus, "bits", "value"
        "sent"          transmit confirmation
        "none"          the packet carries no bus information (idle report, status, version...)
        "other"         defined by the protocol, but none of the above (e.g. eDALI/DSI frame, collision report)
        "unknown"       code not defined by the protocol as far as the reference knows

Assumptions that cannot be checked against vendor documents in the sandbox are listed in ASSUMPTIONS.
"""

ASSUMPTIONS = [
    "Tridonic DALI-USB: 64-byte reports; host->device [0x12, seq, ctrl, mode, frame(4, right aligned, big endian), "
    "dtr, prio, devtype, 0*53]; ctrl bit 0x20 = send twice; mode 2/3/4/5/6/8 = DALI8/DALI16/eDALI25/DSI/DALI24/Helvar17; "
    "device->host [origin 0x11 observed | 0x12 own | 0x01 info, type, frame(4, right aligned), interval(2), seq]; "
    "types 0x71 none, 0x72 8 bit, 0x73 16 bit, 0x74 eDALI25, 0x75 DSI, 0x76 24 bit, 0x77 bus status (frame[3]: 3 = framing "
    "error), 0x78 Helvar17; sequence number 0 is used by the device for unsolicited reports, so hosts use 1..255",
    "hasseb (old firmware, HID driver): the report written is the two frame bytes; a configuration command is written twice; "
    "reports read are [status, value] with status 0 idle, 1 no answer, 2 ok, 3 invalid answer",
    "hasseb (new firmware, legacy driver): [0xAA, 0x07, sn, bits, expect_reply, settling, twice_delay_ms, hi, lo, 0]; "
    "twice_delay_ms = 10 for a command that must be sent twice, else 0; replies [0xAA, cmd, sn, status, len, value, ...]",
    "Lunatone LUBA: 'Y' cmd len payload xor(cmd, len, payload); 0x32 payload [bus, bits, mode, d0, d1, d2, d3] with the frame "
    "left aligned in d0.. and mode = priority(1..5) | 0x80 send twice; events 0x31 payload [tick_hi, tick_lo, line, "
    "status, ...] with status = type<<6 | info (the driver switches tick and line reporting on)",
    "Lunatone SCI RS232: five bytes [control/status, hi, mid, lo, xor of the four]; control = ME 0x80 | ID 0x40 | echo 0x20 | "
    "twice 0x10 | mode (2 DALI8, 3 DALI16, 4 eDALI, 5 DSI, 6 DALI17, 8 DALI24); NOTE: the data alignment is taken "
    "from the driver separately for each direction (host->SCI: frame left aligned in hi..; SCI->host: right aligned in ..lo) "
    "because the two directions of the driver disagree and no vendor document is available to decide which is right",
    "daliserver: request [2, 0, address, command]; reply [2, status, value, 0], status 0 no answer, 1 answer, "
    "2 bus traffic, 255 error",
    "ATX LED DALI hat: ASCII line '<p><HEX>\\n', p = h 16 bit, t 16 bit sent twice, l 24 bit, m 25 bit, j 8 bit; "
    "replies 'J<HH>' backward frame, 'N' no answer, 'X'/'Z' collision/bus error",
    "UniPi: two Modbus registers; 16 bit: [(2|twice 8)<<8, addr<<8|cmd]; 24 bit: [((3|twice 8)<<8)|b0, b1<<8|b2]; "
    "received [0x100, v] backward frame, [0x200, w] 16-bit forward frame",
    "UniPi register numbers (UNIPI_REGS): per DALI channel a receive triple [counter, type, data] and a send pair "
    "[options/length, data]; transcribed from the driver's constants (receive 1+3*bus, send 13+2*bus, framing-error counter "
    "38+bus//2), written out as a table for channels 0..3 - the receive triples of four channels end at register 12, "
    "directly in front of the first send pair at 13, which is why four channels are taken as 'every bus the driver "
    "supports'; the vendor's register map is not in the sandbox, so the absolute numbers only detect changes; what the "
    "table adds on its own is that no register belongs to two channels' send or receive blocks and that every block has "
    "the size the driver transfers (3 read, 2 written); that two channels share one framing-error register is the "
    "driver's reading and is not judged beyond 'the counter of the other pair of channels is not this channel's'",
    "deframers: a dropped LUBA frame (bad checksum, unknown command) is consumed as a whole, i.e. scanning for 'Y' does not "
    "restart inside its payload; an impossible length byte ends the frame right after the length byte; the longest LUBA "
    "frame a receiver must take is 24 bytes in all (payload 20, the device-info reply); SCI has no sync byte: every five "
    "bytes are one frame and a dropped frame consumes five bytes",
]


def frame_bytes(bits, value):
    n = (bits + 7) // 8
    return [(value >> (8 * (n - 1 - k))) & 0xFF for k in range(n)]


def _xor(seq):
    x = 0
    for b in seq:
        x ^= b
    return x


# =====================================================================================
# Tridonic DALI-USB
# =====================================================================================
TRIDONIC_SEND = 0x12
TRIDONIC_MODE = {8: 2, 16: 3, 25: 4, 24: 6, 17: 8}
TRIDONIC_CTRL_TWICE = 0x20
TRIDONIC_SEQ_RANGE = (1, 255)


def tridonic_encode(bits, value, twice, seq):
    """64-byte host->device report, or None if the device has no mode for this frame length."""
    if bits not in TRIDONIC_MODE:
        return None
    pkt = [0] * 64
    pkt[0] = TRIDONIC_SEND
    pkt[1] = seq
    pkt[2] = TRIDONIC_CTRL_TWICE if twice else 0
    pkt[3] = TRIDONIC_MODE[bits]
    pkt[4] = (value >> 24) & 0xFF
    pkt[5] = (value >> 16) & 0xFF
    pkt[6] = (value >> 8) & 0xFF
    pkt[7] = value & 0xFF
    return bytes(pkt)


def tridonic_report(origin, rtype, frame4=0, seq=0, interval=0):
    """Build a 64-byte device->host report (used to play the device)."""
    pkt = [0] * 64
    pkt[0] = origin
    pkt[1] = rtype
    pkt[2] = (frame4 >> 24) & 0xFF
    pkt[3] = (frame4 >> 16) & 0xFF
    pkt[4] = (frame4 >> 8) & 0xFF
    pkt[5] = frame4 & 0xFF
    pkt[6] = (interval >> 8) & 0xFF
    pkt[7] = interval & 0xFF
    pkt[8] = seq
    return bytes(pkt)


def tridonic_decode(pkt):
    origin = {0x01: "info", 0x11: "observed", 0x12: "own"}.get(pkt[0], "unknown")
    rtype = pkt[1]
    f = (pkt[2] << 24) | (pkt[3] << 16) | (pkt[4] << 8) | pkt[5]
    out = {"origin": origin, "seq": pkt[8]}
    if origin in ("info", "unknown"):
        out["kind"] = "none" if origin == "info" else "unknown"
    elif rtype == 0x71:
        out["kind"] = "no-answer"
    elif rtype == 0x72:
        out.update(kind="backward", value=f & 0xFF, wellformed=f <= 0xFF)
    elif rtype == 0x73:
        out.update(kind="forward", bits=16, value=f & 0xFFFF, wellformed=f <= 0xFFFF)
    elif rtype == 0x76:
        out.update(kind="forward", bits=24, value=f & 0xFFFFFF, wellformed=f <= 0xFFFFFF)
    elif rtype in (0x74, 0x75, 0x78):
        out["kind"] = "other"
    elif rtype == 0x77:
        out["kind"] = "framing-error" if (f & 0xFF) == 3 else "none"
    else:
        out["kind"] = "unknown"
    return out


# =====================================================================================
# hasseb
# =====================================================================================
def hasseb_old_encode(bits, value, twice):
    """List of reports written to the old-firmware hasseb (HID driver): the frame, twice if required."""
    if bits != 16:
        return None
    rep = bytes([(value >> 8) & 0xFF, value & 0xFF])
    return [rep, rep] if twice else [rep]


def hasseb_old_decode(report):
    st = report[0]
    if st == 0:
        return {"kind": "none"}
    if st == 1:
        return {"kind": "no-answer"}
    if st == 2:
        return {"kind": "backward", "value": report[1]}
    if st == 3:
        return {"kind": "framing-error"}
    return {"kind": "other" if st in (4, 5, 6) else "unknown"}


HASSEB_SEQ_RANGE = (1, 255)


def hasseb_new_encode(bits, value, twice, sn, expect_reply):
    if bits != 16:
        return None
    return bytes([0xAA, 0x07, sn, 16, 1 if expect_reply else 0, 0, 10 if twice else 0,
                  (value >> 8) & 0xFF, value & 0xFF, 0])


def hasseb_new_decode(report):
    if report[1] == 0:
        return {"kind": "none"}
    if report[1] != 0x07:
        return {"kind": "unknown"}
    st = report[3]
    if st == 1:
        return {"kind": "no-answer"}
    if st == 2:
        if report[4] == 1:
            return {"kind": "backward", "value": report[5]}
        return {"kind": "unknown"}
    if st == 3:
        return {"kind": "framing-error"}
    if st in (4, 5, 6):
        return {"kind": "other"}
    return {"kind": "unknown"}


# =====================================================================================
# Lunatone LUBA
# =====================================================================================
LUBA_SYNC = 0x59
LUBA_MAX_PAYLOAD = 20
LUBA_CMDS = {0x2A, 0x2B, 0x2C, 0x2D, 0x20, 0x21, 0x31, 0x32, 0x33, 0x34, 0x35, 0x36, 0x37}
LUBA_EVENT, LUBA_TX_RSP, LUBA_INFO_RSP, LUBA_SETTINGS_RSP = 0x31, 0x33, 0x21, 0x2B


def luba_frame(cmd, payload, bad_checksum=0):
    body = [cmd, len(payload)] + list(payload)
    return bytes([LUBA_SYNC] + body + [_xor(body) ^ bad_checksum])


def luba_priority(bits, value, has_response, twice):
    """2 for arc power and for addressed gear commands that are neither answered nor repeated
    (the latency-sensitive ones); 5 (lowest) for everything else."""
    if bits != 16:
        return 5
    a = value >> 8
    addressed = a <= 0x7F or 0x80 <= a <= 0x9F or a in (0xFC, 0xFD, 0xFE, 0xFF)
    if not addressed:
        return 5
    if a & 1 == 0:
        return 2
    return 2 if (not has_response and not twice) else 5


def luba_encode(bits, value, twice, priority, bus=0):
    if bits not in (16, 24):
        return None
    d = frame_bytes(bits, value) + [0, 0]
    mode = (priority & 0x07) | (0x80 if twice else 0)
    return luba_frame(0x32, [bus, bits, mode, d[0], d[1], d[2], 0])


def luba_event(status, data, tick=0, line=0):
    return luba_frame(LUBA_EVENT, [(tick >> 8) & 0xFF, tick & 0xFF, line, status] + list(data))


def luba_event_sent(tx_id, fbytes, info=0, tick=0):
    return luba_event((0 << 6) | (info & 63), [tx_id] + list(fbytes), tick=tick)


def luba_event_received(fbytes, tick=0):
    return luba_event((2 << 6) | (8 * len(fbytes)), fbytes, tick=tick)


def luba_event_decode(payload):
    """payload of a 0x31 frame -> decoded dict, or {"kind": "malformed"}"""
    if len(payload) < 4:
        return {"kind": "malformed"}
    status = payload[3]
    etype, info = status >> 6, status & 63
    if etype == 0:
        if len(payload) < 5:
            return {"kind": "malformed"}
        return {"kind": "sent", "tx_id": payload[4], "bytes": list(payload[5:])}
    if etype == 2:
        data = list(payload[4:])
        if 1 <= info <= 32:
            if info != 8 * len(data) or len(data) not in (1, 2, 3):
                return {"kind": "malformed"}
            if len(data) == 1:
                return {"kind": "backward", "value": data[0]}
            v = 0
            for b in data:
                v = (v << 8) | b
            return {"kind": "forward", "bits": info, "value": v, "bytes": data}
        if info == 63:
            return {"kind": "framing-error"}
        if info == 62:
            return {"kind": "other"}
        return {"kind": "unknown"}
    return {"kind": "other"}


def luba_deframe(stream):
    """Reference deframer.  Returns dict with the delivered items per queue
        raw      [int]                    8-bit frames received
        conf     [(tx_id, [frame bytes])]  transmit confirmations
        info     [("info", gtin, id, pcb, assembly, article) | ("settings", mode, event_filter)]
        observed [[frame bytes]]          16/24-bit frames seen on the bus
    plus "trace" (what happened to every frame start), "malformed" (a checksum-valid frame whose payload
    is not well-formed for its type was found: the stream is to be set aside), "pending" (an incomplete
    frame is left at the end)."""
    s = bytes(stream)
    n = len(s)
    out = {"raw": [], "conf": [], "info": [], "observed": [], "trace": [], "malformed": False, "pending": False}
    tr = out["trace"]
    i = 0
    while i < n:
        if s[i] != LUBA_SYNC:
            i += 1
            continue
        if i + 2 >= n:
            out["pending"] = True
            break
        cmd, ln = s[i + 1], s[i + 2]
        if not 1 <= ln <= LUBA_MAX_PAYLOAD:
            tr.append(("bad-length", i, ln))
            i += 3
            continue
        end = i + 3 + ln + 1
        if end > n:
            out["pending"] = True
            tr.append(("truncated", i, ln))
            break
        fr = s[i:end]
        payload = fr[3:-1]
        if _xor(fr[1:-1]) != fr[-1]:
            tr.append(("bad-checksum", i, ln))
            i = end
            continue
        if cmd not in LUBA_CMDS:
            tr.append(("unknown-command", i, cmd))
            i = end
            continue
        bad = False
        if cmd == LUBA_EVENT:
            d = luba_event_decode(payload)
            k = d["kind"]
            if k == "malformed":
                bad = True
            elif k == "sent":
                out["conf"].append((d["tx_id"], d["bytes"]))
                tr.append(("delivered", i, "conf"))
            elif k == "backward":
                out["raw"].append(d["value"])
                tr.append(("delivered", i, "raw"))
            elif k == "forward":
                out["observed"].append(d["bytes"])
                tr.append(("delivered", i, "observed"))
            else:
                tr.append(("ignored", i, k))
        elif cmd == LUBA_TX_RSP:
            if ln in (1, 2):
                tr.append(("ignored", i, "tx-response"))
            else:
                bad = True
        elif cmd == LUBA_INFO_RSP:
            if ln == 20:
                p = payload
                out["info"].append(("info", int.from_bytes(p[0:6], "big"), int.from_bytes(p[6:14], "big"),
                                    p[14], p[15], int.from_bytes(p[16:20], "big")))
                tr.append(("delivered", i, "info"))
            else:
                bad = True
        elif cmd == LUBA_SETTINGS_RSP:
            if ln == 3:
                out["info"].append(("settings", payload[0], payload[1]))
                tr.append(("delivered", i, "settings"))
            else:
                bad = True
        else:
            tr.append(("ignored", i, "host-command-code"))
        if bad:
            tr.append(("malformed", i, cmd))
            out["malformed"] = True
            break
        i = end
    return out


# =====================================================================================
# Lunatone SCI RS232
# =====================================================================================
SCI_MODE = {8: 2, 16: 3, 24: 8}
SCI_CODES = {0, 1, 2, 3, 4, 5, 6, 7, 8}


def sci_frame(b0, hi, mid, lo, bad_checksum=0):
    return bytes([b0, hi, mid, lo, b0 ^ hi ^ mid ^ lo ^ bad_checksum])


def sci_encode(bits, value, twice, monitor=True, identify=False, echo=True):
    if bits not in SCI_MODE:
        return None
    ctrl = (0x80 if monitor else 0) | (0x40 if identify else 0) | (0x20 if echo else 0) | (0x10 if twice else 0) \
        | SCI_MODE[bits]
    d = frame_bytes(bits, value) + [0, 0]
    return sci_frame(ctrl, d[0], d[1], d[2])


def sci_decode(fr):
    """One checksum-valid 5-byte SCI->host frame."""
    code, ident = fr[0] & 0x0F, fr[0] >> 4
    if code in (0, 1):
        return {"kind": "none", "status": (ident, code)}
    if code == 2:
        return {"kind": "backward", "value": fr[3]}
    if code == 3:
        return {"kind": "forward", "bits": 16, "value": (fr[2] << 8) | fr[3], "bytes": [fr[2], fr[3]]}
    if code == 8:
        return {"kind": "forward", "bits": 24, "value": (fr[1] << 16) | (fr[2] << 8) | fr[3],
                "bytes": [fr[1], fr[2], fr[3]]}
    if code in (4, 5, 6):
        return {"kind": "other"}
    if code == 7:
        if fr[3] == 3:
            return {"kind": "framing-error", "status": (ident, code)}
        if fr[3] in (1, 2, 4, 5):
            return {"kind": "other", "status": (ident, code)}
        return {"kind": "unknown"}
    return {"kind": "unknown"}


def sci_deframe(stream):
    """Reference deframer: raw [int], info [(id, code)], observed [[bytes]], trace."""
    s = bytes(stream)
    out = {"raw": [], "info": [], "observed": [], "conf": [], "trace": [], "malformed": False,
           "pending": len(s) % 5 != 0}
    tr = out["trace"]
    for i in range(0, len(s) - len(s) % 5, 5):
        fr = s[i:i + 5]
        if _xor(fr[:4]) != fr[4]:
            tr.append(("bad-checksum", i, 5))
            continue
        if fr[0] & 0x0F not in SCI_CODES:
            tr.append(("unknown-command", i, fr[0] & 0x0F))
            continue
        d = sci_decode(fr)
        if "status" in d:
            out["info"].append(d["status"])
            tr.append(("delivered", i, "info"))
        elif d["kind"] == "backward":
            out["raw"].append(d["value"])
            tr.append(("delivered", i, "raw"))
        elif d["kind"] == "forward":
            out["observed"].append(d["bytes"])
            tr.append(("delivered", i, "observed"))
        else:
            tr.append(("ignored", i, d["kind"]))
    return out


# =====================================================================================
# daliserver
# =====================================================================================
def daliserver_encode(bits, value, twice):
    """List of messages sent on the socket (one per transmission)."""
    if bits != 16:
        return None
    m = bytes([2, 0, (value >> 8) & 0xFF, value & 0xFF])
    return [m, m] if twice else [m]


def daliserver_decode(reply):
    st = reply[1]
    if st == 0:
        return {"kind": "no-answer"}
    if st == 1:
        return {"kind": "backward", "value": reply[2]}
    if st == 255:
        return {"kind": "framing-error"}
    return {"kind": "other" if st == 2 else "unknown"}


# =====================================================================================
# ATX LED DALI hat
# =====================================================================================
ATX_PREFIX = {8: "j", 16: "h", 24: "l", 25: "m"}


def atx_encode(bits, value, twice):
    """List of lines written.  Only 16-bit frames have a "send twice" form ('t'); any other frame that must be
    sent twice has to be written twice."""
    if bits not in ATX_PREFIX:
        return None
    hexs = "".join("%02X" % b for b in frame_bytes(bits, value))
    if twice and bits == 16:
        return [("t" + hexs + "\n").encode("ascii")]
    line = (ATX_PREFIX[bits] + hexs + "\n").encode("ascii")
    return [line, line] if twice else [line]


def atx_decode(line):
    line = line.strip()
    if line.startswith("J") and len(line) == 3:
        try:
            return {"kind": "backward", "value": int(line[1:], 16)}
        except ValueError:
            return {"kind": "unknown"}
    if line.startswith("N"):
        return {"kind": "no-answer"}
    if line[:1] in ("X", "Z"):
        return {"kind": "other"}
    return {"kind": "unknown"}


# =====================================================================================
# UniPi (Modbus registers)
# =====================================================================================
def unipi_encode(bits, value, twice):
    b = frame_bytes(bits, value)
    if bits == 16:
        return ((0x2 | (0x8 if twice else 0)) << 8, (b[0] << 8) | b[1])
    if bits == 24:
        return (((0x3 | (0x8 if twice else 0)) << 8) | b[0], (b[1] << 8) | b[2])
    return None


# register numbers per DALI channel ("bus"): receive triple, send pair, framing-error counter
UNIPI_REGS = {
    0: {"recv": (1, 2, 3), "send": (13, 14), "fe": 38},
    1: {"recv": (4, 5, 6), "send": (15, 16), "fe": 38},
    2: {"recv": (7, 8, 9), "send": (17, 18), "fe": 39},
    3: {"recv": (10, 11, 12), "send": (19, 20), "fe": 39},
}


def _unipi_table_check():
    seen = {}
    for bus, r in UNIPI_REGS.items():
        assert len(r["recv"]) == 3 and len(r["send"]) == 2
        for blk in ("recv", "send"):
            regs = r[blk]
            assert list(regs) == list(range(regs[0], regs[0] + len(regs)))
            for x in regs:
                assert x not in seen, (x, bus, seen[x])
                seen[x] = (bus, blk)
        assert r["fe"] not in seen


_unipi_table_check()


def unipi_bus_of_send_register(reg):
    """Channel whose send pair STARTS at this register, else None."""
    for bus, r in UNIPI_REGS.items():
        if r["send"][0] == reg:
            return bus
    return None


def unipi_decode_send(regs):
    """(bits, value, twice) denoted by a written send pair, or None."""
    if len(regs) != 2:
        return None
    opt, b0 = regs[0] >> 8, regs[0] & 0xFF
    twice = bool(opt & 0x8)
    if opt & 0x7 == 0x2 and b0 == 0:
        return (16, regs[1] & 0xFFFF, twice)
    if opt & 0x7 == 0x3:
        return (24, (b0 << 16) | (regs[1] & 0xFFFF), twice)
    return None


def unipi_decode(regs):
    if regs[0] == 0x100:
        return {"kind": "backward", "value": regs[1] & 0xFF, "wellformed": regs[1] <= 0xFF}
    if regs[0] == 0x200:
        return {"kind": "forward", "bits": 16, "value": regs[1] & 0xFFFF}
    return {"kind": "no-answer"}
