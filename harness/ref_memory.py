"""Reference memory map and reference decoders for DALI memory banks.

DATA ONLY.  This module does not import ``dali`` and nothing in it was produced
by introspecting the library (the last section, a generated family of a program's own declarations, ends with two
functions that SPELL such a declaration with the library module the caller hands in - they interpret nothing): every row
below was typed in by hand from

  * IEC 62386-102:2014 9.10.6 Table 9 (memory bank 0), 9.10.7 Table 10 (bank 1),
    4.2 (version number encoding), and IEC 62386-102:2009 Table "memory bank 0"
    for the legacy layout (serial number only 4 bytes, 0x0B..0x0E),
  * DiiA DALI Part 251 v1.1 (memory bank 1 extension, content format id 0x0003),
  * DiiA DALI Part 252 v1.1 (energy reporting, banks 202, 203, 204),
  * DiiA DALI Part 253 v1.1 (diagnostics & maintenance, banks 205, 206, 207),

as I know them, then cross-read against the library's docstrings.  The texts are
not available in the sandbox (DESIGN.md 2.1 trust statement):

  trust = "independent"  I know this entry from the standard; a mismatch with the
                         library is a candidate finding.
  trust = "pinned"       copied from the library; only detects *changes*.
  pinned_fields          for an otherwise independent row, the named fields are
                         pinned only (I could not recall them with confidence).

Row fields
  key       "<bank object name>.<class name>"  (unique)
  cls       library class name;  module: module that defines it
  bankobj   name of the MemoryBank object in the library (BANK_0, BANK_0_legacy, ...)
  bank      bank number on the bus
  first, last, width   location range (inclusive) and number of bytes
  memtype   tuple of MemoryType names, one per location (ROM, RAM_RO, RAM_RW, NVM_RO,
            NVM_RW, NVM_RW_L, NVM_RW_P)
  kind      "uint"     big-endian number (signed two's complement if signed=True)
            "cct"      big-endian unsigned number; 0xFFFE means "Part 209 implemented"
            "fixed"    big-endian unsigned number times 10**exp10
            "scaled"   first byte: signed power-of-ten exponent -6..+6 (anything else is
                       invalid); remaining bytes: big-endian unsigned mantissa.  MASK / TMASK /
                       range limits apply to the mantissa bytes only
            "temp"     unsigned byte minus 60 (degrees C)
            "version1" one byte, major in bits 7..2, minor in bits 1..0, 0xFF "not implemented"
            "version2" two bytes "major.minor", each a decimal byte
            "bool"     0 -> False, 1 -> True, anything else invalid
            "string"   ASCII, terminated by the first NUL (or the end of the field);
                       a byte >= 0x80 inside the string makes it invalid
            "lightdist" DiiA 251 light distribution type enumeration
  signed, mask, tmask  MASK is the all-ones pattern (0x7F FF.. when signed), TMASK is MASK-1
  min, max  inclusive range limits of the number (None: no limit); outside -> Invalid
  exp10     for kind "fixed"
"""

MASK = "MASK"
TMASK = "TMASK"
INVALID = "INVALID"

MEMORY_TYPES = ("ROM", "RAM_RO", "RAM_RW", "NVM_RO", "NVM_RW", "NVM_RW_L", "NVM_RW_P")

# --------------------------------------------------------------------- banks --
# last: factory value of location 0x00 (address of the last accessible location) that the
#       library assumes for the bank.
BANKS = {
    "BANK_0":        dict(module="dali.memory.info", bank=0, has_lock=False, has_latch=False, last=0x7F,
                          trust="independent", pinned_fields=("last",)),
    "BANK_0_legacy": dict(module="dali.memory.info", bank=0, has_lock=False, has_latch=False, last=0x0E,
                          trust="independent", pinned_fields=()),
    "BANK_1":        dict(module="dali.memory.oem", bank=1, has_lock=True, has_latch=False, last=0x77,
                          trust="independent", pinned_fields=()),
    "BANK_202":      dict(module="dali.memory.energy", bank=202, has_lock=False, has_latch=True, last=0x0F,
                          trust="independent", pinned_fields=()),
    "BANK_203":      dict(module="dali.memory.energy", bank=203, has_lock=False, has_latch=True, last=0x0F,
                          trust="independent", pinned_fields=()),
    "BANK_204":      dict(module="dali.memory.energy", bank=204, has_lock=False, has_latch=True, last=0x0F,
                          trust="independent", pinned_fields=()),
    "BANK_205":      dict(module="dali.memory.diagnostics", bank=205, has_lock=True, has_latch=True, last=0x1C,
                          trust="independent", pinned_fields=("has_lock",)),
    "BANK_206":      dict(module="dali.memory.diagnostics", bank=206, has_lock=True, has_latch=True, last=0x20,
                          trust="independent", pinned_fields=()),
    "BANK_207":      dict(module="dali.memory.maintenance", bank=207, has_lock=True, has_latch=False, last=0x07,
                          trust="independent", pinned_fields=()),
}

ROWS = []


def _R(bankobj, cls, first, last, memtype, kind, mask=False, tmask=False, signed=False,
       lo=None, hi=None, exp10=None, trust="independent", pinned_fields=(), module=None):
    width = last - first + 1
    if isinstance(memtype, str):
        memtype = (memtype,) * width
    ROWS.append(dict(
        key="%s.%s" % (bankobj, cls), cls=cls, module=module or BANKS[bankobj]["module"],
        bankobj=bankobj, bank=BANKS[bankobj]["bank"], first=first, last=last, width=width,
        memtype=tuple(memtype), kind=kind, signed=signed, mask=mask, tmask=tmask,
        min=lo, max=hi, exp10=exp10, trust=trust, pinned_fields=tuple(pinned_fields)))


_LOC = "dali.memory.location"   # LastAddress / LockByte are created by MemoryBank itself

# ---- bank 0, IEC 62386-102:2014 Table 9 (all ROM) -----------------------------
_R("BANK_0", "LastAddress",          0x00, 0x00, "ROM", "uint", module=_LOC)
_R("BANK_0", "LastMemoryBank",       0x02, 0x02, "ROM", "uint")
_R("BANK_0", "GTIN",                 0x03, 0x08, "ROM", "uint")
_R("BANK_0", "FirmwareVersion",      0x09, 0x0A, "ROM", "version2")
_R("BANK_0", "IdentificationNumber", 0x0B, 0x12, "ROM", "uint")
_R("BANK_0", "HardwareVersion",      0x13, 0x14, "ROM", "version2")
_R("BANK_0", "Part101Version",       0x15, 0x15, "ROM", "version1", pinned_fields=("decode-0xff", "decode-minor-3"))
_R("BANK_0", "Part102Version",       0x16, 0x16, "ROM", "version1", pinned_fields=("decode-minor-3",))
_R("BANK_0", "Part103Version",       0x17, 0x17, "ROM", "version1", pinned_fields=("decode-minor-3",))
_R("BANK_0", "DeviceUnitCount",      0x18, 0x18, "ROM", "uint", hi=64)
_R("BANK_0", "GearUnitCount",        0x19, 0x19, "ROM", "uint", hi=64)
_R("BANK_0", "UnitIndex",            0x1A, 0x1A, "ROM", "uint", pinned_fields=("max",))

# ---- bank 0, IEC 62386-102:2009 layout ----------------------------------------
_R("BANK_0_legacy", "LastAddress",                0x00, 0x00, "ROM", "uint", module=_LOC)
_R("BANK_0_legacy", "LastMemoryBank_legacy",      0x02, 0x02, "ROM", "uint")
_R("BANK_0_legacy", "GTIN_legacy",                0x03, 0x08, "ROM", "uint")
_R("BANK_0_legacy", "FirmwareVersion_legacy",     0x09, 0x0A, "ROM", "version2")
_R("BANK_0_legacy", "IdentifictionNumber_legacy", 0x0B, 0x0E, "ROM", "uint")   # (sic) library spelling

# ---- bank 1, IEC 62386-102:2014 Table 10 + DiiA 251 ----------------------------
_R("BANK_1", "LastAddress",             0x00, 0x00, "ROM", "uint", module=_LOC)
_R("BANK_1", "LockByte",                0x02, 0x02, "RAM_RW", "uint", module=_LOC)
_R("BANK_1", "ManufacturerGTIN",        0x03, 0x08, "NVM_RW_L", "uint")
_R("BANK_1", "LuminaireID",             0x09, 0x10, "NVM_RW_L", "uint")
_R("BANK_1", "ContentFormatID",         0x11, 0x12, "NVM_RW_L", "uint")
_R("BANK_1", "YearOfManufacture",       0x13, 0x13, "NVM_RW_L", "uint", mask=True, hi=99)
_R("BANK_1", "WeekOfManufacture",       0x14, 0x14, "NVM_RW_L", "uint", mask=True, lo=1, hi=53)
_R("BANK_1", "InputPowerNominal",       0x15, 0x16, "NVM_RW_L", "uint", mask=True)
_R("BANK_1", "InputPowerMinimumDim",    0x17, 0x18, "NVM_RW_L", "uint", mask=True)
_R("BANK_1", "MainsVoltageMinimum",     0x19, 0x1A, "NVM_RW_L", "uint", mask=True, lo=90, hi=480)
_R("BANK_1", "MainsVoltageMaximum",     0x1B, 0x1C, "NVM_RW_L", "uint", mask=True, lo=90, hi=480)
_R("BANK_1", "LightOutputNominal",      0x1D, 0x1F, "NVM_RW_L", "uint", mask=True)
_R("BANK_1", "CRI",                     0x20, 0x20, "NVM_RW_L", "uint", mask=True, hi=100)
_R("BANK_1", "CCT",                     0x21, 0x22, "NVM_RW_L", "cct", mask=True, hi=17000)
_R("BANK_1", "LightDistributionType",   0x23, 0x23, "NVM_RW_L", "lightdist", mask=True)
_R("BANK_1", "LuminaireColor",          0x24, 0x3B, "NVM_RW_L", "string")
_R("BANK_1", "LuminaireIdentification", 0x3C, 0x77, "NVM_RW_L", "string")

# ---- banks 202/203/204, DiiA 252 -----------------------------------------------
_E6 = ("ROM",) + ("NVM_RO",) * 6     # scale factor byte is ROM, the counter is NVM
_P4 = ("ROM",) + ("RAM_RO",) * 4
for _b, _v, _e, _p in (("BANK_202", "ActiveBankVersion", "ActiveEnergy", "ActivePower"),
                       ("BANK_203", "ApparentBankVersion", "ApparentEnergy", "ApparentPower"),
                       ("BANK_204", "LoadsideBankVersion", "ActiveEnergyLoadside", "ActivePowerLoadside")):
    _R(_b, "LastAddress", 0x00, 0x00, "ROM", "uint", module=_LOC)
    _R(_b, "LockByte",    0x02, 0x02, "RAM_RW", "uint", module=_LOC)
    _R(_b, _v,            0x03, 0x03, "ROM", "uint")
    _R(_b, _e,            0x04, 0x0A, _E6, "scaled", tmask=True, hi=0xFFFFFFFFFFFD)
    _R(_b, _p,            0x0B, 0x0F, _P4, "scaled", tmask=True, hi=0xFFFFFFFD)

# ---- bank 205, DiiA 253 control gear diagnostics ---------------------------------
_R("BANK_205", "LastAddress", 0x00, 0x00, "ROM", "uint", module=_LOC)
_R("BANK_205", "LockByte",    0x02, 0x02, "RAM_RW", "uint", module=_LOC)
_R("BANK_205", "ControlGearDiagnosticBankVersion",             0x03, 0x03, "ROM", "uint")
_R("BANK_205", "ControlGearOperatingTime",                     0x04, 0x07, "NVM_RO", "uint", tmask=True, hi=0xFFFFFFFD)
_R("BANK_205", "ControlGearStartCounter",                      0x08, 0x0A, "NVM_RO", "uint", tmask=True, hi=0xFFFFFD)
_R("BANK_205", "ControlGearExternalSupplyVoltage",             0x0B, 0x0C, "RAM_RO", "fixed", mask=True, tmask=True, hi=0xFFFD, exp10=-1)
_R("BANK_205", "ControlGearExternalSupplyVoltageFrequency",    0x0D, 0x0D, "RAM_RO", "uint", mask=True, tmask=True, hi=0xFD)
_R("BANK_205", "ControlGearPowerFactor",                       0x0E, 0x0E, "RAM_RO", "fixed", mask=True, tmask=True, hi=100, exp10=-2)
_R("BANK_205", "ControlGearOverallFailureCondition",           0x0F, 0x0F, "RAM_RO", "bool", tmask=True)
_R("BANK_205", "ControlGearOverallFailureConditionCounter",    0x10, 0x10, "NVM_RO", "uint", tmask=True, hi=0xFD)
_R("BANK_205", "ControlGearExternalSupplyUndervoltage",        0x11, 0x11, "RAM_RO", "bool", mask=True, tmask=True)
_R("BANK_205", "ControlGearExternalSupplyUndervoltageCounter", 0x12, 0x12, "NVM_RO", "uint", mask=True, tmask=True, hi=0xFD)
_R("BANK_205", "ControlGearExternalSupplyOvervoltage",         0x13, 0x13, "RAM_RO", "bool", mask=True, tmask=True)
_R("BANK_205", "ControlGearExternalSupplyOvervoltageCounter",  0x14, 0x14, "NVM_RO", "uint", mask=True, tmask=True, hi=0xFD)
_R("BANK_205", "ControlGearOutputPowerLimitation",             0x15, 0x15, "RAM_RO", "bool", mask=True, tmask=True)
_R("BANK_205", "ControlGearOutputPowerLimitationCounter",      0x16, 0x16, "NVM_RO", "uint", mask=True, tmask=True, hi=0xFD)
_R("BANK_205", "ControlGearThermalDerating",                   0x17, 0x17, "RAM_RO", "bool", mask=True, tmask=True)
_R("BANK_205", "ControlGearThermalDeratingCounter",            0x18, 0x18, "NVM_RO", "uint", mask=True, tmask=True, hi=0xFD)
_R("BANK_205", "ControlGearThermalShutdown",                   0x19, 0x19, "RAM_RO", "bool", mask=True, tmask=True)
_R("BANK_205", "ControlGearThermalShutdownCounter",            0x1A, 0x1A, "NVM_RO", "uint", mask=True, tmask=True, hi=0xFD)
_R("BANK_205", "ControlGearTemperature",                       0x1B, 0x1B, "RAM_RO", "temp", tmask=True, hi=0xFD)
_R("BANK_205", "ControlGearOutputCurrentPercent",              0x1C, 0x1C, "RAM_RO", "uint", tmask=True, hi=100)

# ---- bank 206, DiiA 253 light source diagnostics -----------------------------------
_R("BANK_206", "LastAddress", 0x00, 0x00, "ROM", "uint", module=_LOC)
_R("BANK_206", "LockByte",    0x02, 0x02, "RAM_RW", "uint", module=_LOC)
_R("BANK_206", "LightSourceDiagnosticBankVersion",          0x03, 0x03, "ROM", "uint")
_R("BANK_206", "LightSourceStartCounterResettable",         0x04, 0x06, "NVM_RW", "uint", tmask=True, hi=0xFFFFFD, pinned_fields=("memtype",))
_R("BANK_206", "LightSourceStartCounter",                   0x07, 0x09, "NVM_RO", "uint", tmask=True, hi=0xFFFFFD)
_R("BANK_206", "LightSourceOnTimeResettable",               0x0A, 0x0D, "NVM_RW", "uint", tmask=True, hi=0xFFFFFFFD, pinned_fields=("memtype",))
_R("BANK_206", "LightSourceOnTime",                         0x0E, 0x11, "NVM_RO", "uint", tmask=True, hi=0xFFFFFFFD)
_R("BANK_206", "LightSourceVoltage",                        0x12, 0x13, "RAM_RO", "fixed", tmask=True, hi=0xFFFD, exp10=-1)
_R("BANK_206", "LightSourceCurrent",                        0x14, 0x15, "RAM_RO", "fixed", tmask=True, hi=0xFFFD, exp10=-3)
_R("BANK_206", "LightSourceOverallFailureCondition",        0x16, 0x16, "RAM_RO", "bool", tmask=True)
_R("BANK_206", "LightSourceOverallFailureConditionCounter", 0x17, 0x17, "NVM_RO", "uint", tmask=True, hi=0xFD)
_R("BANK_206", "LightSourceShortCircuit",                   0x18, 0x18, "RAM_RO", "bool", mask=True, tmask=True)
_R("BANK_206", "LightSourceShortCircuitCounter",            0x19, 0x19, "NVM_RO", "uint", mask=True, tmask=True, hi=0xFD)
_R("BANK_206", "LightSourceOpenCircuit",                    0x1A, 0x1A, "RAM_RO", "bool", mask=True, tmask=True)
_R("BANK_206", "LightSourceOpenCircuitCounter",             0x1B, 0x1B, "NVM_RO", "uint", mask=True, tmask=True, hi=0xFD)
_R("BANK_206", "LightSourceThermalDerating",                0x1C, 0x1C, "RAM_RO", "bool", mask=True, tmask=True)
_R("BANK_206", "LightSourceThermalDeratingCounter",         0x1D, 0x1D, "NVM_RO", "uint", mask=True, tmask=True, hi=0xFD)
_R("BANK_206", "LightSourceThermalShutdown",                0x1E, 0x1E, "RAM_RO", "bool", mask=True, tmask=True)
_R("BANK_206", "LightSourceThermalShutdownCounter",         0x1F, 0x1F, "NVM_RO", "uint", mask=True, tmask=True, hi=0xFD)
_R("BANK_206", "LightSourceTemperature",                    0x20, 0x20, "RAM_RO", "temp", mask=True, tmask=True, hi=0xFD)

# ---- bank 207, DiiA 253 luminaire maintenance --------------------------------------
_R("BANK_207", "LastAddress", 0x00, 0x00, "ROM", "uint", module=_LOC)
_R("BANK_207", "LockByte",    0x02, 0x02, "RAM_RW", "uint", module=_LOC)
_R("BANK_207", "LuminaireMaintenanceBankVersion",         0x03, 0x03, "ROM", "uint")
_R("BANK_207", "RatedMedianUsefulLifeOfLuminaire",        0x04, 0x04, "NVM_RW_L", "fixed", mask=True, tmask=True, hi=0xFD, exp10=3, pinned_fields=("tmask",))
_R("BANK_207", "InternalControlGearReferenceTemperature", 0x05, 0x05, "NVM_RW_L", "temp", mask=True, tmask=True, hi=0xFD, pinned_fields=("tmask",))
_R("BANK_207", "RatedMedianUsefulLightSourceStarts",      0x06, 0x07, "NVM_RW_L", "fixed", mask=True, tmask=True, hi=0xFFFD, exp10=2, pinned_fields=("tmask",))

BY_KEY = {r["key"]: r for r in ROWS}
assert len(BY_KEY) == len(ROWS)

# Places where what I know of the standard differs from what the library does.  In every
# case the row / decoder above is PINNED to the library's current behaviour so that the check
# is quiet on the unchanged tree; none of these is claimed by property C11 as stated.
DISAGREEMENTS = [
    dict(key="BANK_0.Part101Version", field="decode-0xff",
         standard="IEC 62386-102:2014 9.10.6 reserves 0xFF = 'not implemented' only for locations 0x16 "
                  "(102 version) and 0x17 (103 version); every bus unit implements part 101, so 0xFF at "
                  "0x15 is not a defined encoding (it would read as 63.3, outside x<=62, y<=2).",
         library="VersionNumberValue decodes 0xFF as 'not implemented' for every one-byte version, "
                 "including Part101Version.",
         pinned_to="library ('not implemented')"),
    dict(key="BANK_0.Part10xVersion", field="decode-minor-3",
         standard="IEC 62386-102 4.2: one-byte version x.y has x in 0..62 and y in 0..2; minor field 3 "
                  "(and major 63) are not valid version numbers.",
         library="no range check: e.g. 0x0B decodes to '2.3', 0xFC to '63.0' instead of Invalid.",
         pinned_to="library (any byte other than 0xFF decodes to '<b>>2>.<b&3>')"),
    dict(key="BANK_0.UnitIndex", field="max",
         standard="IEC 62386-102:2014 Table 9, 0x1A: index of the logical unit, range 0..(number of logical "
                  "units - 1), hence at most 63.",
         library="no max_value declared: 64..255 are returned as numbers, not Invalid.",
         pinned_to="library (no limit)"),
    dict(key="BANK_0.LastAddress", field="last",
         standard="Table 9, 0x00: manufacturer specific in 0x1A..0xFE; there is no 'standard' value.",
         library="MemoryBank(0, 0x7f): factory default 0x7F (0x1B..0x7F are 'reserved - not implemented').",
         pinned_to="library (0x7F); not checked by C11 as a violation, reported in evidence only"),
    dict(key="BANK_20x.*Energy/*Power", field="scale byte vs TMASK precedence",
         standard="DiiA 252 defines TMASK on the value bytes and a scale factor in -6..+6; it is silent on "
                  "what a reader should report when the scale byte is out of range AND the value bytes hold "
                  "the TMASK pattern.",
         library="reports Invalid (scale byte is checked before MASK/TMASK).",
         pinned_to="primary = Invalid; TMASK is listed by decode_alternatives() as equally acceptable"),
]

# ------------------------------------------------------------------ decoders --


def _be(raw):
    n = 0
    for b in raw:
        n = n * 256 + b
    return n


def _be_signed(raw):
    n = _be(raw)
    if raw and raw[0] >= 0x80:
        n -= 1 << (8 * len(raw))
    return n


def mask_pattern(nbytes, signed):
    """All-ones pattern of nbytes as a list of bytes (0x7F FF .. when signed)."""
    return [0x7F if signed else 0xFF] + [0xFF] * (nbytes - 1) if nbytes else []


def tmask_pattern(nbytes, signed):
    p = mask_pattern(nbytes, signed)
    if p:
        p[-1] = 0xFE if nbytes > 1 or not signed else 0x7E
    return p


def _pow10(n, e):
    """n * 10**e exactly: int for e >= 0, decimal.Decimal for e < 0."""
    if e >= 0:
        return n * 10 ** e
    from decimal import Decimal
    return Decimal(n).scaleb(e)


_LIGHTDIST = {0: "not specified", 1: "Type I", 2: "Type II", 3: "Type III", 4: "Type IV", 5: "Type V"}

SCALE_MIN, SCALE_MAX = -6, 6       # DiiA 252: scale factor 10^-6 .. 10^6, two's complement byte


def _flags_and_range(row, body):
    """MASK, then TMASK, then range limits on the number held in `body`.  None if none applies."""
    n = len(body)
    if row["mask"] and body == mask_pattern(n, row["signed"]):
        return MASK
    if row["tmask"] and body == tmask_pattern(n, row["signed"]):
        return TMASK
    return None


def _range(row, v):
    if row["min"] is not None and v < row["min"]:
        return INVALID
    if row["max"] is not None and v > row["max"]:
        return INVALID
    return None


def decode_tagged(row, raw):
    """Reference interpretation of `raw` (sequence of ints, len == row['width']).

    Returns ("flag", MASK|TMASK|INVALID) or ("value", v)."""
    raw = [int(b) for b in raw]
    if len(raw) != row["width"] or any(b < 0 or b > 255 for b in raw):
        raise ValueError("raw %r does not fit %s" % (raw, row["key"]))
    kind = row["kind"]

    if kind == "scaled":
        e = raw[0] - 256 if raw[0] >= 0x80 else raw[0]
        if e < SCALE_MIN or e > SCALE_MAX:
            return ("flag", INVALID)
        body = raw[1:]
        f = _flags_and_range(row, body)
        if f:
            return ("flag", f)
        m = _be(body)
        if _range(row, m):
            return ("flag", INVALID)
        from decimal import Decimal
        return ("value", Decimal(m).scaleb(e))

    if kind == "string":
        s = []
        for b in raw:
            if b == 0:
                break
            if b >= 0x80:
                return ("flag", INVALID)
            s.append(chr(b))
        return ("value", "".join(s))

    f = _flags_and_range(row, raw)
    if f:
        return ("flag", f)

    if kind == "bool":
        if raw[0] == 0:
            return ("value", False)
        if raw[0] == 1:
            return ("value", True)
        return ("flag", INVALID)

    if kind == "lightdist":
        return ("value", _LIGHTDIST.get(raw[0], "reserved"))

    if kind == "cct":
        if raw == [0xFF, 0xFE]:
            return ("value", "Part 209 implemented")
        v = _be(raw)
        if _range(row, v):
            return ("flag", INVALID)
        return ("value", v)

    v = _be_signed(raw) if row["signed"] else _be(raw)
    if _range(row, v):
        return ("flag", INVALID)
    if kind == "uint":
        return ("value", v)
    if kind == "fixed":
        return ("value", _pow10(v, row["exp10"]))
    if kind == "temp":
        # TemperatureValue.offset is a class attribute like unit / signed / min_value: a declaration may set its own
        # (row["offset"]); the shipped temperatures and the abstract base use 60
        return ("value", v - row.get("offset", 60))
    if kind == "version1":
        if v == 0xFF:
            return ("value", "not implemented")
        return ("value", "%d.%d" % (v // 4, v % 4))
    if kind == "version2":
        return ("value", "%d.%d" % (raw[0], raw[1]))
    raise ValueError("unknown kind %r" % kind)


def decode(row, raw):
    """Plain form: a value, or one of the strings "MASK" / "TMASK" / "INVALID".
    (Ambiguous for string values that spell a flag name; use decode_tagged for those.)"""
    return decode_tagged(row, raw)[1]


def decode_alternatives(row, raw):
    """Other results that the property statement does not exclude for this input."""
    raw = [int(b) for b in raw]
    out = []
    if row["kind"] == "scaled":
        e = raw[0] - 256 if raw[0] >= 0x80 else raw[0]
        if e < SCALE_MIN or e > SCALE_MAX:
            f = _flags_and_range(row, raw[1:])
            if f:
                out.append(("flag", f))
    elif row["kind"] == "string":
        if 0 in raw:
            k = raw.index(0)
            if all(b < 0x80 for b in raw[:k]) and any(b >= 0x80 for b in raw[k:]):
                out.append(("flag", INVALID))
    return out


def valid_range(row):
    """(lo, hi) of the numbers that are plain valid values of a numeric row (no flag, in range)."""
    n = row["width"] - (1 if row["kind"] == "scaled" else 0)
    bits = 8 * n
    if row["signed"]:
        lo, hi = -(1 << (bits - 1)), (1 << (bits - 1)) - 1
    else:
        lo, hi = 0, (1 << bits) - 1
    top = hi
    if row["mask"]:
        hi = min(hi, top - 1)
    if row["tmask"]:
        hi = min(hi, top - 2)
    if row["kind"] == "cct":
        hi = min(hi, 0xFFFD)
    if row["min"] is not None:
        lo = max(lo, row["min"])
    if row["max"] is not None:
        hi = min(hi, row["max"])
    return lo, hi


def encode_number(row, v):
    """Big-endian bytes of v in the row's width (reference for the inverse direction)."""
    n = row["width"]
    if v < 0:
        v += 1 << (8 * n)
    out = []
    for _ in range(n):
        out.append(v & 0xFF)
        v >>= 8
    if v:
        raise ValueError("does not fit")
    return out[::-1]


WRITABLE_TYPES = ("RAM_RW", "NVM_RW", "NVM_RW_L", "NVM_RW_P")


def rows_of_bank(bankobj):
    """Rows of one bank object, in location order (for C09 / C10 models)."""
    return sorted((r for r in ROWS if r["bankobj"] == bankobj), key=lambda r: r["first"])


def is_writable(row):
    """True if every location of the value can be written (IEC 62386-102 9.10: RW types)."""
    return all(t in WRITABLE_TYPES for t in row["memtype"])


def needs_unlock(row):
    """True if some location is lockable: the lock byte (0x02) must hold 0x55 while writing."""
    return any(t == "NVM_RW_L" for t in row["memtype"])


def trust_counts():
    ind = sum(1 for r in ROWS if r["trust"] == "independent")
    return {"rows": len(ROWS), "independent": ind, "pinned": len(ROWS) - ind,
            "independent_with_pinned_fields": sum(1 for r in ROWS if r["trust"] == "independent" and r["pinned_fields"])}


def _selfcheck():
    occ = {}
    for r in ROWS:
        assert r["width"] == len(r["memtype"]) and all(t in MEMORY_TYPES for t in r["memtype"]), r["key"]
        for a in range(r["first"], r["last"] + 1):
            assert (r["bankobj"], a) not in occ, "table overlap at %s %#x" % (r["bankobj"], a)
            occ[(r["bankobj"], a)] = r["key"]
        assert r["last"] <= BANKS[r["bankobj"]]["last"], r["key"]
        if "NVM_RW_L" in r["memtype"]:
            assert BANKS[r["bankobj"]]["has_lock"], r["key"]


_selfcheck()


# ------------------------------------------------- declaration-time rules (C11) --
# "Each value sits at [its] location range ..., no two values overlap, and lockable locations only exist in
# banks that have a lock byte."  A bank object owns location 0x00 (last accessible location) and - when it has
# a lock byte or a latch byte - location 0x02; a program's value may use any other location once.
def bank_reserved(has_lock, has_latch):
    """Locations a freshly created bank occupies by itself."""
    return {0x00} | ({0x02} if (has_lock or has_latch) else set())


def declaration_reasons(occupied, has_lock, locs):
    """Why the declaration of a value at `locs` = [(address, access type name)] has to be refused in a bank
    whose locations `occupied` (set of addresses) already belong to a value: subset of {"overlap", "locking"};
    empty = the declaration is legal.  The position of the offending location inside the value is irrelevant."""
    reasons = set()
    for a, t in locs:
        if t not in MEMORY_TYPES:
            raise ValueError("unknown access type %r" % (t,))
        if a in occupied:
            reasons.add("overlap")
        if t == "NVM_RW_L" and not has_lock:
            reasons.add("locking")
    return reasons


def declared_limit_pairs(nbytes, signed):
    """(min, max) pairs a program may declare for an nbytes number: no limit, limits at 0, 1, -1, at the type's
    extremes and next to them, min == max, an empty range; every one with the other side open or closed."""
    bits = 8 * nbytes
    lo, hi = (-(1 << (bits - 1)), (1 << (bits - 1)) - 1) if signed else (0, (1 << bits) - 1)
    singles = [0, 1, lo, hi, lo + 1, hi - 1, hi - 2, hi - 3]
    if signed:
        singles += [-1, -2]
    if hi > 200:
        singles += [100]
    pairs = [(None, None)]
    for s in singles:
        pairs += [(s, None), (None, s), (s, s)]
    pairs += [(0, 1), (0, hi), (lo, 0), (0, hi - 2), (1, hi - 3), (1, 0), (lo, hi)]
    if signed:
        pairs += [(-1, 0), (-1, 1), (0, -1), (-2, -1), (lo, -1)]
    seen, out = set(), []
    for p in pairs:
        if p not in seen and all(x is None or lo <= x <= hi for x in p):
            seen.add(p)
            out.append(p)
    return out


# ------------------------------------------- byte-position boundary patterns (C09, C11) --
# A rule that belongs to ONE byte of a value (one-byte version 0xFF = "not implemented", a MASK byte, a sign bit, a
# NUL) must not leak to the other positions of a wider value.  For every byte position of an n-byte field: each of the
# bytes below, with the remaining positions all 0x00, all 0xFF, or filled with unremarkable bytes - so 00 FF, FF 00,
# FF FF, 00 FE, FE FF, 00 01, 7F FF, 80 00 ... all occur - plus pairs of edge bytes at neighbouring positions between
# unremarkable bytes (every pair for a two-byte field).
EDGE_BYTES = (0x00, 0x01, 0x7F, 0x80, 0xFE, 0xFF)


_EDGE_PAIRS = ((0x00, 0xFF), (0xFF, 0x00), (0xFF, 0xFE), (0xFF, 0xFF), (0x00, 0x00), (0x7F, 0xFF), (0x80, 0x00), (0x00, 0x01))


def _typical(n):
    """n unremarkable bytes: none of them an edge byte, all different from their neighbours."""
    return [0x12 + (i * 0x23) % 0x5B for i in range(n)]


def byte_position_patterns(nbytes):
    """List of byte lists of length nbytes (distinct, deterministic order); empty for nbytes < 1."""
    if nbytes < 1:
        return []
    bases = [[0x00] * nbytes, [0xFF] * nbytes, _typical(nbytes)]
    seen, out = set(), []

    def add(p):
        t = tuple(p)
        if t not in seen:
            seen.add(t)
            out.append(list(p))
    for base in bases:
        add(base)
        for pos in range(nbytes):
            for b in EDGE_BYTES:
                p = list(base)
                p[pos] = b
                add(p)
    typ = _typical(nbytes)
    pairs = [(a, b) for a in EDGE_BYTES for b in EDGE_BYTES] if nbytes == 2 else _EDGE_PAIRS
    for pos in range(nbytes - 1):
        for a, b in pairs:
            p = list(typ)
            p[pos], p[pos + 1] = a, b
            add(p)
    return out


def edge_raws(row):
    """Byte-position boundary patterns for one table row (lists of row['width'] ints).  A scaled value is its scale
    byte followed by a number: the patterns run over the number's bytes behind a few scale bytes (valid ones and the
    neighbours of the valid window), and over the whole field."""
    w = row["width"]
    if row["kind"] != "scaled":
        return byte_position_patterns(w)
    seen, out = set(), []
    scales = (0x00, 0x01, 0x06, 0x07, 0xFA, 0xF9, 0xFF, 0x80)
    for i, body in enumerate(byte_position_patterns(w - 1)):
        for s in (scales[i % len(scales)], 0x00):
            t = (s,) + tuple(body)
            if t not in seen:
                seen.add(t)
                out.append(list(t))
    for p in byte_position_patterns(w):
        if tuple(p) not in seen:
            seen.add(tuple(p))
            out.append(p)
    return out


# ------------------------------------- generated family of a program's own declarations (C09, C10, C11) --
# "For every declared memory value ...": the declaration mechanism is public (dali/memory/*.py are written with it), so a
# program's own banks and values are declared values like the shipped ones.  family(seed) generates a few hundred
# declarations that span what the mechanism documents:
#   base class   NumericValue, FixedScaleNumericValue, TemperatureValue, StringValue, BinaryValue, VersionNumberValue,
#                energy.ScaledNumericValue (kinds uint / fixed / temp / string / bool / version1|2 / scaled)
#   derivation   from the abstract base, from a shipped concrete value (CRI, InputPowerNominal, ...), from another value
#                of the family - changing width, signedness, limits, MASK / TMASK support, scale
#   signed, mask_supported, tmask_supported, min_value / max_value present or absent (None overrides an inherited limit)
#   1..4 (strings, plain numbers: up to 8) locations: ascending, descending, with gaps, scattered; addresses 0x03..0xFE
#   per-location access type: each MemoryType, none given (MemoryLocation's default), mixed (writeable + read-only, ...)
#   MemoryLocation(default=, reset=) present / absent; locations given as MemoryRange, tuple, list, single MemoryLocation
#   banks with / without lock byte and latch byte
# What such a value MEANS is fixed here, without the library: a class attribute that the declaration does not set is the
# parent's (Python inheritance of the documented attributes), the MASK / TMASK patterns are those of the value's OWN
# width and signedness, the bytes are taken from the locations in the DECLARED order.  Only combinations whose meaning the
# statement / the library's documentation settles are generated: no signed temperatures / versions / scaled numbers,
# booleans of one byte, versions of one or two bytes, limits of temperatures only where the shipped values have them
# (largest number below the flag patterns), no limits for strings / booleans / versions, no location 0x00..0x02.
ABSTRACT_BASES = {"NumericValue": "uint", "FixedScaleNumericValue": "fixed", "TemperatureValue": "temp",
                  "StringValue": "string", "BinaryValue": "bool", "VersionNumberValue": "version",
                  "ScaledNumericValue": "scaled"}
# shipped values a program's value is derived from (table keys; kinds with a decoder of their own - cct, lightdist - are
# not refined)
STOCK_PARENTS = ("BANK_1.CRI", "BANK_1.InputPowerNominal", "BANK_1.WeekOfManufacture", "BANK_1.MainsVoltageMinimum",
                 "BANK_1.LuminaireColor", "BANK_0.GTIN", "BANK_0.FirmwareVersion", "BANK_0.Part102Version",
                 "BANK_205.ControlGearExternalSupplyVoltage", "BANK_205.ControlGearPowerFactor",
                 "BANK_205.ControlGearTemperature", "BANK_205.ControlGearOverallFailureCondition",
                 "BANK_205.ControlGearThermalShutdown", "BANK_206.LightSourceStartCounterResettable",
                 "BANK_206.LightSourceTemperature", "BANK_207.RatedMedianUsefulLifeOfLuminaire", "BANK_202.ActivePower",
                 "BANK_203.ApparentEnergy")
FAMILY_BANK0 = 160          # bank numbers 160.. are the family's (the library keeps no registry of bank numbers)
_FAMILIES = {}


def _abstract_row(base):
    return dict(kind=ABSTRACT_BASES[base], signed=False, mask=False, tmask=False, min=None, max=None,
                exp10=0 if base == "FixedScaleNumericValue" else None)


def family_row(decl, parent_row):
    """Reference meaning of one declaration: the parent's row with what the declaration sets itself."""
    a = decl["attrs"]
    w = len(decl["locs"])
    kind = parent_row["kind"]
    if kind.startswith("version"):
        kind = "version1" if w == 1 else "version2"
    return dict(key="%s.%s" % (decl["bankobj"], decl["name"]), cls=decl["name"], module="(program)", bankobj=decl["bankobj"],
                bank=decl["bank"], first=min(decl["locs"]), last=max(decl["locs"]), width=w, locs=list(decl["locs"]),
                memtype=tuple(decl["types"]), kind=kind, signed=a.get("signed", parent_row["signed"]),
                mask=a.get("mask_supported", parent_row["mask"]), tmask=a.get("tmask_supported", parent_row["tmask"]),
                min=a["min_value"] if "min_value" in a else parent_row["min"],
                max=a["max_value"] if "max_value" in a else parent_row["max"],
                exp10=a.get("exp10", parent_row["exp10"]), trust="independent", pinned_fields=())


_RO_TYPES = ("ROM", "RAM_RO", "NVM_RO")


def family(seed, nbanks=16, per_bank=12):
    """-> {"seed", "banks": {bankobj: {bank, has_lock, has_latch, last}}, "decls": [decl, ...], "rows": {key: row}}
    decl: name, bankobj, bank, parent ["abstract", base] | ["stock", table key] | ["user", key of an earlier decl],
    locs / types (None: no type_ given) / defaults / resets per location, form (range | tuple | list | single),
    attrs (what the class body sets: signed, mask_supported, tmask_supported, min_value, max_value, exp10),
    order ("parent-first" | "child-first": which of the two is used first where the caller can arrange it)."""
    seed = int(seed)
    if (seed, nbanks, per_bank) in _FAMILIES:
        return _FAMILIES[(seed, nbanks, per_bank)]
    attempt = 0
    while True:
        fam = _family(seed, nbanks, per_bank, attempt)
        if not family_missing(fam) or attempt > 50:
            break
        attempt += 1            # (deterministic: the first attempt that shows every feature of FAMILY_FEATURES)
    _family_selfcheck(fam)
    _FAMILIES[(seed, nbanks, per_bank)] = fam
    return fam


_ABSTRACT_WEIGHTED = ["NumericValue"] * 5 + ["FixedScaleNumericValue"] * 4 + ["StringValue"] * 2 + ["ScaledNumericValue"] * 2 + \
    ["TemperatureValue", "BinaryValue", "VersionNumberValue"]


def _family(seed, nbanks, per_bank, attempt):
    import random
    rnd = random.Random("python-dali declared-value family %d/%d" % (seed, attempt))
    flags = [(False, False), (True, False), (False, True), (True, True)]
    banks, decls, rows = {}, [], {}
    todo_abstract = sorted(ABSTRACT_BASES) * 2
    todo_stock = list(STOCK_PARENTS)
    rnd.shuffle(todo_abstract)
    rnd.shuffle(todo_stock)
    todo_types = list(MEMORY_TYPES) + [None, "mixed-ro", "mixed-none", "mixed-rw"]
    n = 0
    for k in range(nbanks):
        has_lock, has_latch = flags[(k + seed) % 4]
        bankobj = "F%dB%02d" % (seed, k)
        high = k % 4 == 1 or k % 4 == 2 and k % 8 == 2          # banks used up to their end (0xFE)
        ceiling = 0xFE if high else 0x48 + 8 * (k % 5)
        free = set(range(3, ceiling + 1))
        cursor = 3
        want_fe = high
        for j in range(per_bank):
            n += 1
            # ---- parent
            r = rnd.random()
            users = [d for d in decls if rows["%s.%s" % (d["bankobj"], d["name"])]["kind"] in ("uint", "fixed", "string", "scaled")
                     or rnd.random() < 0.25]
            if todo_abstract and (r < 0.4 or not decls):
                parent = ["abstract", todo_abstract.pop()]
            elif todo_stock and r < 0.7:
                parent = ["stock", todo_stock.pop()]
            elif r < 0.45:
                parent = ["abstract", rnd.choice(_ABSTRACT_WEIGHTED)]
            elif r < 0.7:
                parent = ["stock", rnd.choice(STOCK_PARENTS)]
            elif users:
                d = rnd.choice(users)
                parent = ["user", "%s.%s" % (d["bankobj"], d["name"])]
            else:
                parent = ["abstract", rnd.choice(_ABSTRACT_WEIGHTED)]
            prow = _abstract_row(parent[1]) if parent[0] == "abstract" else dict(BY_KEY[parent[1]]) if parent[0] == "stock" \
                else rows[parent[1]]
            kind = prow["kind"]
            derived = parent[0] != "abstract"
            # ---- width
            pw = prow.get("width")
            if kind == "uint":
                w = rnd.choice([1, 1, 2, 2, 2, 3, 3, 4, 4, 6, 8])
            elif kind == "fixed":
                w = rnd.choice([1, 2, 2, 3, 4])
            elif kind == "temp":
                w = rnd.choice([1, 1, 1, 2])
            elif kind == "string":
                w = rnd.choice([1, 2, 3, 4, 5, 8, 8, 12])
            elif kind == "bool":
                w = 1
            elif kind.startswith("version"):
                w = rnd.choice([1, 2])
            else:
                w = rnd.choice([2, 3, 3, 4, 5])
            if derived and pw and rnd.random() < 0.35 and pw <= 8:
                w = pw                                           # same width as the parent
            w = min(w, len(free))
            # ---- locations
            shape = rnd.choice(["up", "up", "down", "scattered", "scattered", "gaps"]) if w > 1 else "up"
            if shape in ("up", "down"):
                start = next((a for a in range(cursor, ceiling + 2 - w) if all(a + i in free for i in range(w))), None)
                if start is None:
                    start = next((a for a in range(3, ceiling + 2 - w) if all(a + i in free for i in range(w))), None)
                if start is None:
                    shape = "scattered"
                else:
                    locs = [start + i for i in range(w)]
                    cursor = start + w + rnd.choice([0, 0, 1, 2])
            if shape in ("up", "down"):
                pass
            elif shape == "gaps":
                pool = sorted(a for a in free if a >= min(cursor, max(3, ceiling - 3 * w)))
                if len(pool) < w:
                    pool = sorted(free)
                locs = sorted(rnd.sample(pool[:3 * w], w))
            else:
                locs = rnd.sample(sorted(free), w)
                if locs == sorted(locs) and w > 1:
                    locs[0], locs[-1] = locs[-1], locs[0]
            if want_fe and 0xFE in free and (j >= 2 or w == 1) and 0xFE not in locs:
                # one value of this bank ends / begins / passes at the last legal location
                want_fe = False
                pos = rnd.choice([w - 1, w - 1, 0, w // 2])
                if shape in ("up", "down") and w > 1:
                    locs = [0xFE - (w - 1) + i for i in range(w)] if all(0xFE - i in free for i in range(w)) else locs
                    if 0xFE not in locs:
                        locs[pos] = 0xFE
                else:
                    locs[pos] = 0xFE
                    if shape == "gaps":
                        locs.sort()
            if shape == "down":
                locs = locs[::-1]
            free.difference_update(locs)
            # ---- access types
            t = todo_types.pop() if todo_types and rnd.random() < 0.5 else rnd.choice(
                list(MEMORY_TYPES) + ["NVM_RW", "RAM_RW", "NVM_RW_L", "NVM_RW_L", None, "mixed-ro", "mixed-none", "mixed-rw"])
            rw = [x for x in WRITABLE_TYPES if x != "NVM_RW_L" or has_lock]
            if t == "NVM_RW_L" and not has_lock:
                t = "NVM_RW"
            if t in ("mixed-ro", "mixed-none", "mixed-rw") and w == 1:
                t = {"mixed-ro": "ROM", "mixed-none": None, "mixed-rw": "NVM_RW_P"}[t]
            if t == "mixed-ro":         # writeable and read-only locations in one value
                types = [rnd.choice(rw) for _ in range(w)]
                for i in rnd.sample(range(w), rnd.randint(1, w - 1)):
                    types[i] = rnd.choice(_RO_TYPES)
            elif t == "mixed-none":     # some locations without a type
                types = [rnd.choice(rw + list(_RO_TYPES)) for _ in range(w)]
                for i in rnd.sample(range(w), rnd.randint(1, w - 1)):
                    types[i] = None
            elif t == "mixed-rw":       # all writeable, of different types
                types = [rw[(i + n) % len(rw)] for i in range(w)]
            else:
                types = [t] * w
            defaults = [rnd.choice([None, None, 0x00, 0xFF, rnd.randrange(256)]) for _ in range(w)]
            resets = [rnd.choice([None, None, None, 0xFF, rnd.randrange(256)]) for _ in range(w)]
            uniform = len(set(types)) == 1 and len(set(defaults)) == 1 and len(set(resets)) == 1
            form = "single" if w == 1 and rnd.random() < 0.5 else \
                "range" if uniform and locs == list(range(locs[0], locs[0] + w)) and rnd.random() < 0.6 else \
                rnd.choice(["tuple", "tuple", "list"])
            # ---- what the class body sets
            attrs = {}
            nb = w - 1 if kind == "scaled" else w
            numeric = kind in ("uint", "fixed")
            p_set = 0.5 if derived else 1.0            # a derived value overrides some of the attributes
            if numeric and rnd.random() < p_set * 0.45:
                attrs["signed"] = rnd.random() < 0.8 if not prow["signed"] else rnd.random() < 0.5
            signed = attrs.get("signed", prow["signed"])
            if kind not in ("string", "version1", "version2", "version"):
                for name in ("mask_supported", "tmask_supported"):
                    if rnd.random() < p_set * 0.6:
                        attrs[name] = rnd.random() < 0.7
            if kind == "fixed" and (not derived or rnd.random() < 0.4):
                attrs["exp10"] = rnd.choice([-3, -2, -1, -1, 1, 2, 3, 0])
            bits = 8 * nb
            top = (1 << (bits - 1)) - 1 if signed else (1 << bits) - 1
            if numeric and rnd.random() < p_set * 0.7:
                lo, hi = rnd.choice(declared_limit_pairs(nb, signed))
                if rnd.random() < 0.3:
                    lo, hi = rnd.choice([(None, top - 2), (None, top - 3), (1, top - 2), (0, 100), (-100 if signed else 1, 100)])
                    lo, hi = (lo, hi if hi <= top else top)
                if lo is not None or not derived or rnd.random() < 0.5:
                    attrs["min_value"] = lo
                if hi is not None or not derived or rnd.random() < 0.5:
                    attrs["max_value"] = hi
            elif kind in ("temp", "scaled") and rnd.random() < p_set * 0.6:
                attrs["max_value"] = rnd.choice([top - 2, top - 2, None])
            if not derived:
                # an abstract base has none of these set: leave out what equals the base's default half of the time
                for name, dflt in (("signed", False), ("mask_supported", False), ("tmask_supported", False),
                                   ("min_value", None), ("max_value", None), ("exp10", 0)):
                    if name in attrs and attrs[name] == dflt and rnd.random() < 0.5:
                        del attrs[name]
            decl = dict(name="V%d_%03d" % (seed, n), bankobj=bankobj, bank=FAMILY_BANK0 + k, parent=parent, locs=locs,
                        types=types, defaults=defaults, resets=resets, form=form, attrs=attrs,
                        order=rnd.choice(["parent-first", "child-first"]))
            row = family_row(decl, prow)
            decls.append(decl)
            rows[row["key"]] = row
        used = set(range(3, ceiling + 1)) - free
        banks[bankobj] = dict(bank=FAMILY_BANK0 + k, has_lock=has_lock, has_latch=has_latch, last=max(used), module="(program)")
    return dict(seed=seed, attempt=attempt, banks=banks, decls=decls, rows=rows)


def family_features(fam, decl):
    """Labels of the declaration features one declaration shows (for histograms and for FAMILY_FEATURES)."""
    row = fam["rows"]["%s.%s" % (decl["bankobj"], decl["name"])]
    b = fam["banks"][decl["bankobj"]]
    locs, types, w = decl["locs"], decl["types"], len(decl["locs"])
    f = ["base:" + (decl["parent"][1] if decl["parent"][0] == "abstract" else decl["parent"][0]),
         "kind:" + row["kind"] + ("-signed" if row["signed"] else ""), "width:%d" % w,
         "bank:%s%s" % ("lock" if b["has_lock"] else "no-lock", "+latch" if b["has_latch"] else ""), "form:" + decl["form"]]
    f.append("order:" + ("single" if w == 1 else "ascending" if locs == list(range(locs[0], locs[0] + w)) else
                         "descending" if locs == list(range(locs[0], locs[0] - w, -1)) else
                         "ascending-with-gaps" if locs == sorted(locs) else "scattered"))
    ts = set(types)
    wr = all(t in WRITABLE_TYPES for t in types)
    if len(ts) == 1:
        f.append("type:%s" % types[0])
    else:
        f.append("type:mixed")
        if ts & set(WRITABLE_TYPES) and ts - set(WRITABLE_TYPES):
            f.append("type:mixed-writeable+read-only")
        if None in ts:
            f.append("type:mixed-with-untyped")
        if wr:
            f.append("type:mixed-all-writeable")
    if 0xFE in locs:
        f.append("location-0xfe")
        if locs[-1] == 0xFE and w > 1:
            f.append("ends-at-0xfe-%s" % ("writeable" if wr else "read-only"))
    if row["min"] is not None or row["max"] is not None:
        f.append("limits")
    if row["mask"] or row["tmask"]:
        f.append("flags:%s%s" % ("MASK" if row["mask"] else "", "TMASK" if row["tmask"] else ""))
    if any(d is not None for d in decl["defaults"] + decl["resets"]):
        f.append("default/reset-given")
    if decl["parent"][0] != "abstract":
        p = dict(BY_KEY[decl["parent"][1]]) if decl["parent"][0] == "stock" else fam["rows"][decl["parent"][1]]
        who = "derived-from-%s" % ("shipped" if decl["parent"][0] == "stock" else "own")
        f.append(who + ":" + decl["order"])
        flagged = row["mask"] or row["tmask"]
        if p["width"] != w:
            f.append(who + ":other-width" + ("+flags" if flagged else ""))
        if p["signed"] != row["signed"]:
            f.append(who + ":other-signedness" + ("+flags" if flagged else ""))
        if (p["min"], p["max"]) != (row["min"], row["max"]):
            f.append(who + ":other-limits")
        if (p["mask"], p["tmask"]) != (row["mask"], row["tmask"]):
            f.append(who + ":other-flag-support")
    return f


FAMILY_FEATURES = tuple(
    ["base:" + b for b in sorted(ABSTRACT_BASES)] + ["type:%s" % t for t in MEMORY_TYPES + (None,)] +
    ["type:mixed-writeable+read-only", "type:mixed-with-untyped", "type:mixed-all-writeable", "kind:uint-signed",
     "kind:fixed-signed", "kind:fixed", "kind:uint", "order:ascending", "order:descending", "order:scattered",
     "order:ascending-with-gaps", "ends-at-0xfe-writeable", "location-0xfe", "limits", "default/reset-given",
     "form:range", "form:tuple", "form:list", "form:single"] +
    ["derived-from-%s:%s" % (w, x) for w in ("shipped", "own") for x in (
        "parent-first", "child-first", "other-width+flags", "other-signedness+flags", "other-limits", "other-flag-support")])


def family_missing(fam):
    """Features of FAMILY_FEATURES that fewer than two declarations of the family show."""
    n = {}
    for d in fam["decls"]:
        for x in family_features(fam, d):
            n[x] = n.get(x, 0) + 1
    return [x for x in FAMILY_FEATURES if n.get(x, 0) < 2]


def _family_selfcheck(fam):
    occ = set()
    for d in fam["decls"]:
        r = fam["rows"]["%s.%s" % (d["bankobj"], d["name"])]
        b = fam["banks"][d["bankobj"]]
        assert len(d["locs"]) == len(d["types"]) == len(set(d["locs"])) == r["width"] >= 1, d
        assert all(3 <= a <= 0xFE for a in d["locs"]), d
        assert all(t is None or t in MEMORY_TYPES for t in d["types"]), d
        assert b["has_lock"] or "NVM_RW_L" not in d["types"], d
        assert r["kind"] != "scaled" or r["width"] >= 2, d
        assert not (r["signed"] and r["kind"] not in ("uint", "fixed")), d
        for a in d["locs"]:
            assert (d["bankobj"], a) not in occ, d
            occ.add((d["bankobj"], a))
        assert max(d["locs"]) <= b["last"], d


def family_of_key(key):
    """Seed of the family that a key / bank object name 'F<seed>B<k>[.<name>]' belongs to, or None."""
    import re
    m = re.match(r"F(\d+)B\d\d(\.|$)", key or "")
    return int(m.group(1)) if m else None


def declare_bank(bspec, location):
    """`location`: the library's module dali.memory.location, handed in by the caller (this module never imports the
    library; the two functions below only spell a declaration the way dali/memory/*.py do)."""
    kw = {}
    if bspec["has_lock"]:
        kw["has_lock"] = True
    if bspec["has_latch"]:
        kw["has_latch"] = True
    return location.MemoryBank(bspec["bank"], bspec["last"], **kw)


def declare_value(decl, bank, parent_cls, location):
    """The value class a program gets for `decl`: class <name>(<parent>): bank = ...; locations = ...; <attrs>"""
    MT = location.MemoryType
    kws = []
    for t, d, r in zip(decl["types"], decl["defaults"], decl["resets"]):
        kw = {}
        if t is not None:
            kw["type_"] = getattr(MT, t)
        if d is not None:
            kw["default"] = d
        if r is not None:
            kw["reset"] = r
        kws.append(kw)
    locs = decl["locs"]
    if decl["form"] == "range":
        locations = location.MemoryRange(start=locs[0], end=locs[-1], **kws[0])
    else:
        mls = [location.MemoryLocation(a, **kw) if i % 2 else location.MemoryLocation(address=a, **kw)
               for i, (a, kw) in enumerate(zip(locs, kws))]
        locations = mls[0] if decl["form"] == "single" else list(mls) if decl["form"] == "list" else tuple(mls)
    body = {"bank": bank, "locations": locations, "__module__": "program", "__doc__": "declared by a program"}
    for k, v in decl["attrs"].items():
        if k == "exp10":
            if v >= 0:
                body["scaling_factor"] = 10 ** v
            else:
                from decimal import Decimal
                body["scaling_factor"] = Decimal(1).scaleb(v)
        else:
            body[k] = v
    return type(decl["name"], (parent_cls,), body)
