"""Frame-level specification model of the memory access of an IEC 62386-103 control device.

Like harness/model_gear.py this module never imports the library.  It sees forward frames as
(bits, integer, sent_twice) and answers None or an 8-bit integer, and decodes 24-bit frames with
its own constants, transcribed from IEC 62386-103:2014 Table 21 (standard commands, device
commands carry instance byte 0xFE) and Table 22 (special commands), cross-read against
harness/ref_tables.py.

24-bit forward frame = address byte, instance byte, opcode byte.

  address byte   0AAAAAA1  short address A            10GGGGG1  device group G (0..31)
                 11111101  broadcast unaddressed      11111111  broadcast
                 110xxxx1  special command (0xC1 .. 0xDF), bit 0 = 0: event message (ignored)
  instance byte  0xFE      the command is for the device as a whole (the only form modelled)

Implemented (and only this): addressing, DTR0/DTR1/DTR2 (0xC1 0x30/0x31/0x32 data), DTR1:DTR0
(0xC7 d1 d0), DTR2:DTR1 (0xC9 d2 d1), QUERY CONTENT DTR0/1/2 (0x36/0x37/0x38), ENABLE WRITE MEMORY
(0x15, acts only when sent twice), READ MEMORY LOCATION (0x3C), WRITE MEMORY LOCATION (0xC1 0x20
data, answers the byte written or NO), WRITE MEMORY LOCATION - NO REPLY (0xC1 0x21 data), DIRECT
WRITE MEMORY (0xC5 offset data: DTR0 := offset, then as WRITE MEMORY LOCATION), SET SHORT ADDRESS
(0x14, DTR0), QUERY MISSING SHORT ADDRESS (0x33) - with the memory rules of 103 9.10 (identical to
102 9.10): writeEnableState set by ENABLE WRITE MEMORY and cleared by every other frame except
the memory-write family / DTR setters / QUERY CONTENT DTRx (also when addressed elsewhere), DTR0
incremented (below 0xFF) by every executed read or write including refused ones, lock byte at
location 0x02 (0x55 unlocks lockable locations, 0xAA latches a snapshot on latchable banks).

Also here, because both memory checks (C09, C10) need them for either kind of unit:

  Bank      MemBank with (a) a per-bank switch for banks that have no lock byte (bank 0: location
            0x02 is an ordinary ROM location), (b) a log of the snapshots taken and of every write
            attempt, (c) a deterministic drift hook.
  MemGear   GearModel that logs every READ / WRITE MEMORY LOCATION it executes (bank, location,
            answer) and every write it ignored because writeEnableState was DISABLED.
"""
from harness.model_gear import GearModel, MemBank

# address byte of special commands
SP_MAIN, SP_DIRECT_WRITE, SP_DTR1_DTR0, SP_DTR2_DTR1 = 0xC1, 0xC5, 0xC7, 0xC9
# instance byte of 0xC1 special commands
SI_WRITE, SI_WRITE_NR, SI_DTR0, SI_DTR1, SI_DTR2 = 0x20, 0x21, 0x30, 0x31, 0x32
# device commands (instance byte 0xFE), opcode byte
INST_DEVICE = 0xFE
OP_SET_SHORT, OP_ENABLE_WRITE = 0x14, 0x15
OP_QUERY_MISSING_SHORT = 0x33
OP_QUERY_DTR0, OP_QUERY_DTR1, OP_QUERY_DTR2 = 0x36, 0x37, 0x38
OP_READ_MEMORY = 0x3C

YES = 0xFF


class Bank(MemBank):
    """MemBank + observation log.  has_lock_byte=False: location 0x02 is an ordinary location
    (memory bank 0), never a lock/latch byte."""

    def __init__(self, contents, writable=(), lockable=(), latchable=False, unlock_value=0x55,
                 has_lock_byte=True):
        super().__init__(contents, writable=writable, lockable=lockable, latchable=latchable,
                         unlock_value=unlock_value)
        self.has_lock_byte = has_lock_byte
        self.snapshots = []        # copies of the memory taken each time the latch was set
        self.write_log = []        # (location, value, accepted)
        self.drift_calls = 0

    def read(self, loc):
        if not self.has_lock_byte:
            if self.readable(loc) is None:
                return None
            return self.contents[loc]
        return super().read(loc)

    def write(self, loc, value):
        if not self.has_lock_byte and loc == 2:
            r = None
            if self.readable(loc) is not None and loc in self.writable:
                self.contents[loc] = value
                r = value
        else:
            r = super().write(loc, value)
            if loc == 2 and r is not None and self.latchable and value == 0xAA:
                self.snapshots.append(list(self.snapshot))
        self.write_log.append((loc, value, r is not None))
        return r


def make_drift(first=3):
    """Drift hook: after every read of the unit every implemented location >= first of the live
    memory is incremented (mod 256).  live == base + bank.drift_calls (mod 256), so a check can
    tell 'changed by the drift' from 'changed by a write'."""
    def drift(bank):
        bank.drift_calls += 1
        c = bank.contents
        for i in range(first, len(c)):
            if c[i] is not None:
                c[i] = (c[i] + 1) & 0xFF
    return drift


class MemGear(GearModel):
    """GearModel with a log of its memory accesses."""

    def __init__(self, *a, **kw):
        super().__init__(*a, **kw)
        self.read_log = []         # (bank number, location, answer)
        self.mem_write_log = []    # (bank number, location, data, executed)

    def _read_memory(self):
        b, loc = self.dtr1, self.dtr0
        v = super()._read_memory()
        self.read_log.append((b, loc, v))
        return v

    def _write_memory(self, data, reply):
        b, loc = self.dtr1, self.dtr0
        executed = self.write_enabled and self.banks.get(b) is not None
        self.mem_write_log.append((b, loc, data, executed))
        return super()._write_memory(data, reply)


class DevMemModel:
    """Control device (IEC 62386-103), memory access only."""

    def __init__(self, short=None, groups=(), banks=None, name="device"):
        self.name = name
        self.short = short
        self.groups = set(groups)
        self.dtr0 = self.dtr1 = self.dtr2 = 0
        self.write_enabled = False
        self.banks = banks or {}
        self.no_dtr0_increment = False
        self.read_log = []
        self.mem_write_log = []
        self.flags = set()

    # ------------------------------------------------------------------
    def _addressed(self, a):
        a7 = a >> 1
        if a7 < 0x40:
            return self.short == a7
        if a7 < 0x60:
            return (a7 & 0x1F) in self.groups
        if a7 == 0x7E:
            return self.short is None
        if a7 == 0x7F:
            return True
        return False

    @staticmethod
    def _is_special(a):
        return (a & 0xE1) == 0xC1          # 110xxxx1

    def receive(self, bits, v, twice):
        if bits != 24:
            # not a control-device frame; any other command ends writeEnableState
            self.write_enabled = False
            return None
        a, inst, op = (v >> 16) & 0xFF, (v >> 8) & 0xFF, v & 0xFF
        if not (a & 1):
            # event message
            self.write_enabled = False
            return None
        special = self._is_special(a)
        if special:
            keeps = a in (SP_DIRECT_WRITE, SP_DTR1_DTR0, SP_DTR2_DTR1) or \
                (a == SP_MAIN and inst in (SI_WRITE, SI_WRITE_NR, SI_DTR0, SI_DTR1, SI_DTR2))
        else:
            keeps = inst == INST_DEVICE and op in (OP_QUERY_DTR0, OP_QUERY_DTR1, OP_QUERY_DTR2)
        if not keeps:
            self.write_enabled = False
        if special:
            return self._special(a, inst, op)
        if inst != INST_DEVICE or not self._addressed(a):
            return None
        return self._device_command(op, twice)

    # ------------------------------------------------------------------
    def _special(self, a, inst, op):
        if a == SP_MAIN:
            if inst == SI_DTR0:
                self.dtr0 = op
            elif inst == SI_DTR1:
                self.dtr1 = op
            elif inst == SI_DTR2:
                self.dtr2 = op
            elif inst in (SI_WRITE, SI_WRITE_NR):
                return self._write_memory(op, reply=(inst == SI_WRITE))
        elif a == SP_DTR1_DTR0:
            self.dtr1, self.dtr0 = inst, op
        elif a == SP_DTR2_DTR1:
            self.dtr2, self.dtr1 = inst, op
        elif a == SP_DIRECT_WRITE:
            self.dtr0 = inst
            return self._write_memory(op, reply=True)
        return None

    def _device_command(self, op, twice):
        if op <= 0x2F and not twice:
            return None                       # configuration commands must be received twice
        if op == OP_SET_SHORT:
            if self.dtr0 == 0xFF:
                self.short = None
            elif self.dtr0 < 64:
                self.short = self.dtr0
        elif op == OP_ENABLE_WRITE:
            self.write_enabled = True
        elif op == OP_QUERY_MISSING_SHORT:
            return YES if self.short is None else None
        elif op == OP_QUERY_DTR0:
            return self.dtr0
        elif op == OP_QUERY_DTR1:
            return self.dtr1
        elif op == OP_QUERY_DTR2:
            return self.dtr2
        elif op == OP_READ_MEMORY:
            return self._read_memory()
        return None

    # ------------------------------------------------------------------
    def _bump_dtr0(self):
        if not self.no_dtr0_increment and self.dtr0 < 0xFF:
            self.dtr0 += 1

    def _read_memory(self):
        b, loc = self.dtr1, self.dtr0
        bank = self.banks.get(b)
        if bank is None:
            self.read_log.append((b, loc, None))
            return None
        v = bank.read(loc)
        if bank.drift is not None:
            bank.drift(bank)
        self._bump_dtr0()
        self.read_log.append((b, loc, v))
        return v

    def _write_memory(self, data, reply):
        b, loc = self.dtr1, self.dtr0
        bank = self.banks.get(b)
        executed = self.write_enabled and bank is not None
        self.mem_write_log.append((b, loc, data, executed))
        if not executed:
            return None
        r = bank.write(loc, data)
        self._bump_dtr0()
        return r if reply else None
