"""Gateway models and simulation for the asyncio serial drivers (dali.driver.serial: LUBA, SCI).

The real driver and protocol objects run on the virtual-time loop; the module attribute
`dali.driver.serial.serial_asyncio` is replaced by an object whose create_serial_connection() returns
a recording transport.  The gateway model parses what the driver writes (its own grammar, helpers from
harness/ref_wire.py) and produces the byte chunks a gateway would send back, each with a due time
drawn inside the protocol's latency windows; the simulation hands chunks to protocol.data_received()
and fires timers in virtual-time order.

Conversation assumed (what the driver's code expects; vendor documents are not in the sandbox):
  LUBA: QUERY DEVICE INFO (0x20) -> 0x21 with a 20-byte payload; READ/WRITE SETTINGS (0x2A) -> 0x2B
    echoing mode and event filter; ADD DALI FRAME (0x32) -> 0x33 acknowledgement (tx id), then one
    event message type 0 ("frame sent", tx id + frame bytes) per transmission, then - for an answered
    command - an event type 2 carrying the 8-bit backward frame, or type 2 / info 63 for a framing
    error, or nothing.
  SCI: every command is answered by one status frame (code 0, or 1 = "DALI no" when a query stays
    unanswered); with echo on, the transmitted forward frame is reported back (once per
    transmission) before it; an answer comes as a separate 8-bit data frame (code 2); a garbled
    answer as an error frame (code 7, error 3).
"""
from harness import ref_wire as RW
from harness.vloop import VLoop


class FakeTransport:
    def __init__(self, sim):
        self.sim = sim
        self.loop = sim.loop
        self.closed = False

    def write(self, data):
        self.sim.gw.on_write(bytes(data))

    def close(self):
        self.closed = True

    def is_closing(self):
        return self.closed


class FakeSerialAsyncio:
    def __init__(self, sim):
        self.sim = sim
        self.SerialTransport = FakeTransport

    async def create_serial_connection(self, loop=None, protocol_factory=None, url=None, baudrate=None, **kw):
        if not self.sim.port_present:
            raise OSError(2, "could not open port %s" % url)
        proto = protocol_factory()
        tr = FakeTransport(self.sim)
        self.sim.protocol = proto
        self.sim.transport = tr
        self.sim.open_args = {"url": url, "baudrate": baudrate}
        proto.connection_made(tr)
        return tr, proto


class SerialGateway:
    def __init__(self, sim):
        self.sim = sim
        self.pending = []        # (due time, byte chunk) in physical order
        self.wire = []           # frames the host asked the gateway to transmit
        self.writes = []
        self.mute = False        # gateway stops talking (no confirmation, no answer)
        self.mute_answers = False
        self._tx_id = 0
        self._last_due = 0.0

    mute_after_bytes = None
    cut = False

    def emit(self, chunk, lat_name):
        due = max(self._last_due, self.sim.loop.time()) + self.sim.latency(lat_name)
        self._last_due = due
        if self.cut:
            return
        if self.mute_after_bytes is not None:
            # cable pulled / gateway reset while it was talking: the head of this packet is the last thing heard
            chunk = chunk[:max(1, min(self.mute_after_bytes, len(chunk) - 1))]
            self.mute_after_bytes = None
            self.mute = True
            self.cut = True
            self.truncated = chunk
        self.pending.append((due, chunk))

    def outcome(self, bits, value):
        return self.sim.outcomes.get((bits, value), ("silent",))


class LubaGateway(SerialGateway):
    settings = (0, 0, 0)         # mode, event filter, hardware - as last written by the host (READ/WRITE SETTINGS)
    bus_quiescent = False
    bus_initialise = False

    def event(self, status, data, lat_name):
        """An event packet laid out as the event filter the host configured prescribes (bit 7: no events, 6: none for
        sent frames, 5: none for received frames, 3: no time tick, 2: no line number - see the driver's own table)."""
        f = self.settings[1]
        et = status >> 6
        if f & 0x80 or (et == 0 and f & 0x40) or (et == 2 and f & 0x20):
            return
        tick = int(self.sim.loop.time() * 1000) & 0xFFFF
        body = ([] if f & 0x08 else [(tick >> 8) & 0xFF, tick & 0xFF]) + ([] if f & 0x04 else [0]) + [status] + list(data)
        self.emit(RW.luba_frame(RW.LUBA_EVENT, body), lat_name)

    def on_write(self, data):
        self.writes.append(data)
        i = 0
        while i + 4 <= len(data):
            if data[i] != 0x59:
                i += 1
                continue
            cmd, ln = data[i + 1], data[i + 2]
            payload = list(data[i + 3:i + 3 + ln])
            i += 4 + ln
            self.handle(cmd, payload)

    def handle(self, cmd, payload):
        t = self.sim.loop.time()
        if cmd == 0x20:
            self.wire.append({"kind": "info-query", "t": t})
            if not self.mute:
                body = list((1234567654321).to_bytes(6, "big")) + list((99).to_bytes(8, "big")) + [1, 2] + \
                    list((24166096).to_bytes(4, "big"))
                self.emit(RW.luba_frame(0x21, body), "ack")
        elif cmd == 0x2A:
            self.wire.append({"kind": "settings", "payload": payload, "t": t})
            self.settings = (list(payload) + [0, 0, 0])[:3]
            if not self.mute:
                self.emit(RW.luba_frame(0x2B, payload[:3]), "ack")
        elif cmd == 0x32:
            bus, bits, mode = payload[0], payload[1], payload[2]
            nbytes = 2 if bits == 16 else 3
            value = int.from_bytes(bytes(payload[3:3 + nbytes]), "big")
            twice = bool(mode & 0x80)
            self._tx_id = (self._tx_id + 1) & 0xFF
            self.wire.append({"kind": "send", "bits": bits, "value": value, "twice": twice, "priority": mode & 7,
                              "tx_id": self._tx_id, "t": t})
            if self.mute:
                return
            # mode settings (the driver's own table): bit 5 = no sending of DALI frames while the bus is in quiescent mode,
            # bit 6 = none during initialisation mode.  The bus states follow the frames this interface has put out.
            if (self.settings[0] & 0x20 and self.bus_quiescent) or (self.settings[0] & 0x40 and self.bus_initialise):
                self.wire[-1]["not_transmitted"] = True
                return
            if bits == 24 and value == 0xFFFE1D and twice:
                self.bus_quiescent = True
            elif bits == 24 and value == 0xFFFE1E and twice:
                self.bus_quiescent = False
            elif bits == 16 and (value >> 8) == 0xA5 and twice:
                self.bus_initialise = True
            elif bits == 16 and value == 0xA100:
                self.bus_initialise = False
            self.emit(RW.luba_frame(0x33, [self._tx_id, 0]), "ack")
            fb = list(value.to_bytes(nbytes, "big"))
            for _ in range(2 if twice else 1):
                self.event((0 << 6), [self._tx_id] + fb, "tx")
            if self.mute_answers:
                return
            oc = self.outcome(bits, value)
            if oc[0] == "value":
                self.event((2 << 6) | 8, [oc[1]], "answer")
            elif oc[0] == "error":
                # the firmware has two reports for a garbled backward frame ("framing error" 63, "only start/stop bit
                # combination" 62); either may carry whatever the receiver had collected in the place of a frame
                sel = oc[1] if len(oc) > 1 else 0
                self.event((2 << 6) | (63 if sel & 1 == 0 else 62), [sel] if sel & 3 in (1, 2) else [], "answer")
        else:
            self.wire.append({"kind": "other", "cmd": cmd, "t": t})


class SciGateway(SerialGateway):
    def on_write(self, data):
        self.writes.append(data)
        for i in range(0, len(data) - 4, 5):
            self.handle(data[i:i + 5])

    def handle(self, fr):
        t = self.sim.loop.time()
        b0 = fr[0]
        mode = b0 & 0x0F
        twice = bool(b0 & 0x10)
        echo = bool(b0 & 0x20)
        identify = bool(b0 & 0x40)
        if identify and mode == 2 and fr[1] == 0 and fr[2] == 0 and fr[3] == 0:
            self.wire.append({"kind": "info-query", "t": t})
            if not self.mute:
                self.emit(RW.sci_frame(0x30 | 0, 0, 0, 0), "ack")
            return
        bits = {2: 8, 3: 16, 8: 24}.get(mode)
        nbytes = {8: 1, 16: 2, 24: 3}.get(bits, 0)
        value = int.from_bytes(bytes(fr[1:1 + nbytes]), "big")
        self.wire.append({"kind": "send", "bits": bits, "value": value, "twice": twice, "echo": echo, "ctrl": b0, "t": t})
        if self.mute:
            return
        if self.sim.tx_errors and self.sim.tx_errors.pop(0):
            # the interface could not put the frame on the bus (collision): an ERROR status instead of the confirmation,
            # nothing was transmitted, nothing is answered
            self.wire[-1]["not_transmitted"] = True
            self.emit(RW.sci_frame(0x30 | 7, 0, 0, 5), "status")
            return
        oc = self.outcome(bits, value)
        if echo and bits in (16, 24):
            fb = list(value.to_bytes(nbytes, "big"))
            pad = [0] * (3 - nbytes) + fb
            code = 3 if bits == 16 else 8
            for _ in range(2 if twice else 1):
                self.emit(RW.sci_frame(0x30 | code, pad[0], pad[1], pad[2]), "tx")
        answered = oc[0] in ("value", "error") and not self.mute_answers
        is_query = self.sim.query_frames.get((bits, value), False)
        self.emit(RW.sci_frame(0x30 | (1 if (is_query and not answered) else 0), 0, 0, 0), "status")
        if self.mute_answers:
            return
        if oc[0] == "value":
            self.emit(RW.sci_frame(0x30 | 2, 0, 0, oc[1]), "sci-answer")
        elif oc[0] == "error":
            self.emit(RW.sci_frame(0x30 | 7, 0, 0, 3), "sci-answer")


class SerialSim:
    # latency windows (seconds): ack = protocol acknowledgement; tx = bus transmission of one forward frame
    # (may queue behind other traffic); answer = backward frame after the forward frame, inside the driver's
    # documented answer window (LUBA 25 ms after the "sent" event, SCI 30 ms after the status frame)
    LAT = {"ack": (0.0005, 0.004), "tx": (0.014, 0.040), "answer": (0.013, 0.022), "status": (0.0002, 0.002),
           "sci-answer": (0.0005, 0.027)}

    def __init__(self, kind, driver_kwargs=None):
        import dali.driver.serial as sermod
        self.sermod = sermod
        self.kind = kind
        self.loop = VLoop()
        self.outcomes = {}
        self.query_frames = {}
        self.sendtwice_frames = {}
        self.port_present = True
        self.protocol = None
        self.transport = None
        self.latencies = []      # scripted unit draws in [0, 1), consumed in order; default 0.5
        self.coalesce = []       # scripted booleans, consumed in order: merge the next chunk into this read?
        self.coalesced = 0
        self.splits = []         # scripted (k, gap): this read returns k bytes only, the rest after `gap` seconds
        self.tx_errors = []      # scripted booleans, one per command frame (SCI): answer it with an ERROR status?
        self.split_reads = 0
        self.gw = LubaGateway(self) if kind == "luba" else SciGateway(self)
        self._saved = sermod.serial_asyncio
        sermod.serial_asyncio = FakeSerialAsyncio(self)
        kw = dict(driver_kwargs or {})
        if kind == "luba":
            self.driver = sermod.DriverLubaRs232("luba232:/dev/verif-luba", **kw)
        else:
            self.driver = sermod.DriverSCIRS232("scirs232:/dev/verif-sci", **kw)
        self.tasks = []
        self.delivered = []
        self.connect_task = None

    COALESCE_WINDOW = 0.016

    def latency(self, name):
        lo, hi = self.LAT[name]
        u = self.latencies.pop(0) if self.latencies else 0.5
        return lo + u * (hi - lo)

    def expect(self, cmd, outcome):
        f = cmd.frame
        self.outcomes[(len(f), f.as_integer)] = outcome
        self.note(cmd)

    def note(self, cmd):
        f = cmd.frame
        key = (len(f), f.as_integer)
        if cmd.response is not None:
            self.query_frames[key] = True
        if cmd.sendtwice:
            self.sendtwice_frames[key] = True

    def connect(self):
        """Run driver.connect() through its handshake."""
        self.connect_task = self.loop.create_task(self.driver.connect())
        for _ in range(20):
            self.loop.settle()
            if self.connect_task.done():
                break
            if not self.deliver():
                break
        self.loop.settle()
        return self.connect_task.done() and self.connect_task.exception() is None

    def deliver(self, split=None):
        """Hand the next pending chunk to the protocol (optionally split in two reads)."""
        if not self.gw.pending or self.protocol is None:
            return False
        due, chunk = self.gw.pending.pop(0)
        # a USB-serial adapter / the tty layer hands over whatever accumulated since the last read: frames that
        # follow each other within its latency timer (FTDI default 16 ms) may arrive in ONE data_received call
        while self.coalesce and self.gw.pending and self.gw.pending[0][0] - due <= self.COALESCE_WINDOW:
            if not self.coalesce.pop(0):
                break
            d2, c2 = self.gw.pending.pop(0)
            due, chunk = max(due, d2), chunk + c2
            self.coalesced += 1
        if due > self.loop.time():
            self.loop.advance(due - self.loop.time())
        if split is None and self.splits:
            # scripted: the read returns only the first k bytes; the rest arrives `gap` seconds later (before
            # anything that follows it on the line)
            k, gap = self.splits.pop(0)
            if k and 0 < k % len(chunk) and len(chunk) > 1:
                k = k % len(chunk)
                rest_due = self.loop.time() + gap
                self.gw.pending.insert(0, (rest_due, chunk[k:]))
                self.gw.pending = [(max(d, rest_due) if j else d, c) for j, (d, c) in enumerate(self.gw.pending)]
                chunk = chunk[:k]
                self.split_reads += 1
        self.delivered.append((self.loop.time(), chunk))
        if split and 0 < split < len(chunk):
            self.loop.call_soon(self.protocol.data_received, chunk[:split])
            self.loop.call_soon(self.protocol.data_received, chunk[split:])
        else:
            self.loop.call_soon(self.protocol.data_received, chunk)
        return True

    def inject(self, chunk, at=None):
        """An unsolicited chunk (other masters' traffic, stale answers) due at virtual time `at`."""
        at = self.loop.time() if at is None else at
        self.gw.pending.append((at, chunk))
        self.gw.pending.sort(key=lambda x: x[0])

    def start(self, coro, tag=None):
        t = self.loop.create_task(coro)
        t.tag = tag
        self.tasks.append(t)
        return t

    def _next(self):
        tc = self.gw.pending[0][0] if (self.gw.pending and self.protocol is not None) else None
        return tc, self.loop.next_timer()

    def run_until(self, t_stop, chunk_first=True, max_rounds=5000):
        """Discrete-event simulation up to virtual time t_stop."""
        for r in range(max_rounds):
            self.loop.settle()
            tc, tt = self._next()
            cands = [x for x in (tc, tt) if x is not None and x <= t_stop]
            if not cands:
                if self.loop.time() < t_stop:
                    self.loop.advance(t_stop - self.loop.time())
                self.loop.settle()
                return r
            if tc is not None and tc <= t_stop and (tt is None or tc < tt or (tc == tt and chunk_first)):
                self.deliver()
            else:
                self.loop.advance(max(0.0, tt - self.loop.time()))
        raise RuntimeError("simulation does not reach t_stop")

    def drain(self, max_rounds=4000, max_virtual=600.0, chunk_first=True):
        """Process chunks and timers in time order until every caller is done or nothing that could
        wake one is left (or the virtual-time cap is reached)."""
        t_end = self.loop.time() + max_virtual
        for r in range(max_rounds):
            self.loop.settle()
            if all(t.done() for t in self.tasks):
                self.loop.settle()
                return r
            tc, tt = self._next()
            if tc is None and (tt is None or tt > t_end):
                return r
            if tc is not None and (tt is None or tc < tt or (tc == tt and chunk_first)):
                self.deliver()
            else:
                self.loop.advance(max(0.0, tt - self.loop.time()))
        return max_rounds

    def close(self):
        try:
            self.loop.shutdown()
        finally:
            self.sermod.serial_asyncio = self._saved
