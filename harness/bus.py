"""Fake DALI bus: drives a library generator-sequence against frame-level unit models the way a
driver would, with fault injection by position in the command stream.

What the bus takes from the library's command object is exactly what every real driver takes:
cmd.frame (length, integer), cmd.sendtwice, cmd.devicetype (16-bit frames: an ENABLE DEVICE TYPE
frame is put on the bus first), cmd.response (class used to wrap the backward frame).
"""


class NonTermination(Exception):
    pass


class Fault:
    """Fault applied to the answer of the step-th command put on the bus (0-based, counting only
    commands yielded by the sequence, not the ENABLE DEVICE TYPE prefix)."""

    def __init__(self, step, kind, value=None):
        self.step = step
        self.kind = kind      # "silence" | "garble" | "replace" | "collide"
        self.value = value


class Bus:
    def __init__(self, units, faults=(), max_commands=100000):
        self.units = list(units)
        self.faults = {f.step: f for f in faults}
        self.max_commands = max_commands
        self.trace = []           # (bits, value, twice, answers)
        self.commands = []        # the library command objects, in order
        self.n = 0

    def put(self, bits, value, twice):
        answers = []
        for u in self.units:
            a = u.receive(bits, value, twice)
            if a is not None:
                answers.append(a & 0xFF)
        self.trace.append((bits, value, twice, list(answers)))
        return answers

    def idle(self, item):
        """A sleep item of the sequence: that much time passes on the bus (units that need time for something - taking
        up a new random address, for one - get it)."""
        d = getattr(item, "delay", None)
        if isinstance(d, (int, float)) and d > 0:
            for u in self.units:
                el = getattr(u, "elapse", None)
                if el is not None:
                    el(d)

    def transact(self, cmd):
        """Returns what a driver would hand back: None for non-queries, else cmd.response(frame|None)."""
        from dali import frame
        step = self.n
        self.n += 1
        if self.n > self.max_commands:
            raise NonTermination("more than %d commands" % self.max_commands)
        self.commands.append(cmd)
        f = cmd.frame
        bits, value = len(f), f.as_integer
        if bits == 16 and cmd.devicetype != 0:
            self.put(16, 0xC100 | (cmd.devicetype & 0xFF), False)
        answers = self.put(bits, value, bool(cmd.sendtwice))
        fault = self.faults.get(step)
        if cmd.response is None:
            return None
        if fault is not None:
            if fault.kind == "noobject":
                # a driver that hands back None instead of a response object (the asyncio hasseb driver does, for a report
                # with a status code it does not know)
                return None
            if fault.kind == "silence":
                answers = []
            elif fault.kind == "garble":
                answers = [fault.value if fault.value is not None else (answers[0] if answers else 0x55)] * 2
            elif fault.kind == "replace":
                answers = [fault.value]
            elif fault.kind == "collide":
                answers = answers + [fault.value if fault.value is not None else 0xFF]
        if not answers:
            bf = None
        elif len(answers) == 1:
            bf = frame.BackwardFrame(answers[0])
        else:
            v = 0
            for a in answers:
                v |= a
            bf = frame.BackwardFrameError(v & 0xFF)
        return cmd.response(bf)

    def run(self, seq):
        """Run a generator sequence to completion; returns its return value.  Exceptions raised by
        the sequence propagate; NonTermination is raised when the command cap is hit."""
        from dali import command
        resp = None
        try:
            while True:
                item = seq.send(resp)
                resp = None
                if isinstance(item, command.Command):
                    resp = self.transact(item)
                else:
                    self.idle(item)      # sleep / progress objects are consumed; a sleep lets time pass for the units
        except StopIteration as e:
            return e.value
        finally:
            seq.close()


def run_interleaved(pairs, schedule=(), cycle=None, order=None):
    """Run SEVERAL independent generator-sequences at the same time, each against its OWN Bus, the
    way several drivers in one process (one per DALI line) would: the sequences are advanced
    alternately, command by command.

    pairs     [(bus, seq), ...]; seq is a generator, or a zero-argument callable returning one
              (called when the sequence is advanced for the first time, so that argument checks
              done at call time count as the sequence's first step)
    schedule  iterable of indices into pairs: which sequence advances next.  One "advance" resumes
              the sequence with the answer to its previous command and runs it until it has put ONE
              more command on its bus (sleep/progress items in between are consumed) or ends.
              Indices of finished sequences (and indices out of range) are skipped.
    cycle     list of indices used, repeatedly, once `schedule` is used up (default: round-robin
              over all sequences).  A cycle that names no unfinished sequence falls back to
              round-robin, so every sequence always runs to its end.
    order     optional list; the index of the sequence advanced is appended at every advance made

    Each bus does for its sequence exactly what Bus.run does (Bus.transact: ENABLE DEVICE TYPE
    prefix, faults by position, response wrapping, command cap).  Returns one outcome per pair, in
    order: ("returned", value) or ("raised", exception) - exceptions (NonTermination included) end
    only the sequence that raised them and are handed to the caller, who knows which are allowed."""
    from dali import command
    n = len(pairs)
    buses = [p[0] for p in pairs]
    seqs = [p[1] for p in pairs]
    resp = [None] * n
    outcome = [None] * n
    live = n

    def advance(i):
        # one command's worth of progress of sequence i
        if order is not None:
            order.append(i)
        try:
            if not hasattr(seqs[i], "send"):
                seqs[i] = seqs[i]()
            while True:
                item = seqs[i].send(resp[i])
                resp[i] = None
                if isinstance(item, command.Command):
                    resp[i] = buses[i].transact(item)
                    return
                buses[i].idle(item)
        except StopIteration as e:
            outcome[i] = ("returned", e.value)
        except Exception as e:  # noqa: handed to the caller
            outcome[i] = ("raised", e)

    try:
        for i in schedule:
            if live == 0:
                break
            if isinstance(i, int) and 0 <= i < n and outcome[i] is None:
                advance(i)
                if outcome[i] is not None:
                    live -= 1
        cyc = [i for i in (cycle if cycle else range(n)) if isinstance(i, int) and 0 <= i < n]
        while live:
            if not any(outcome[i] is None for i in cyc):
                cyc = list(range(n))
            for i in cyc:
                if outcome[i] is None:
                    advance(i)
                    if outcome[i] is not None:
                        live -= 1
    finally:
        for s in seqs:
            if hasattr(s, "close"):
                s.close()
    return outcome


def block_schedule(n, block, total):
    """Schedule of `total` advances for n sequences in blocks: 0 x block, 1 x block, ..."""
    out = []
    while len(out) < total:
        for i in range(n):
            out.extend([i] * block)
    return out[:total]
