"""Gateway models and simulation drivers for the asyncio HID drivers (dali.driver.hid).

The real driver objects run unmodified on a virtual-time loop (harness/vloop.py).  The module
attribute `dali.driver.hid.os` is replaced by FakeOS, whose open/read/write/close talk to a gateway
model; `dali.driver.hid.random` is replaced so that the Tridonic initial sequence number is chosen by
the case.  The harness decides when each gateway report is delivered, when timers fire, when callers
start or are cancelled and when the device disappears.

Gateway behaviour assumed (vendor documents are not in the sandbox; this is what the driver's code
and comments expect):
  Tridonic DALI USB: a SEND command is answered by one MODE_RESPONSE report per transmission carrying
    the forward frame (echo; two for send-twice), followed by exactly one of NO_FRAME, FRAME_DALI8 (the
    backward frame) or INFO with bus status "framing error"; all carry the command's sequence number.
    Commands are executed one after the other in the order written.  INIT READVERSION / READSERIAL are
    answered by MODE_INFO reports.  Traffic of other masters is reported with MODE_OBSERVE.
  hasseb DALI master: the frame is written as two bytes (twice for send-twice); for commands that
    expect an answer the device sends one report [status, data] with status 1 (no answer), 2 (OK) or
    3 (invalid answer); idle reports have status 0.
"""
import asyncio
import errno
import struct

from harness.vloop import VLoop

RESP = struct.Struct(">BB4sHB55x")
MODE_INFO, MODE_OBSERVE, MODE_RESPONSE = 0x01, 0x11, 0x12
R_NO_FRAME, R_DALI8, R_DALI16, R_DALI24, R_INFO = 0x71, 0x72, 0x73, 0x76, 0x77
BUS_FRAMING_ERROR, BUS_OK = 3, 4


def tri_report(mode, rtype, value, seq, interval=0):
    return RESP.pack(mode, rtype, int(value).to_bytes(4, "big"), interval, seq)


class FakeRandom:
    def __init__(self, value):
        self.value = value

    def randint(self, a, b):
        return min(max(self.value, a), b)


class FakeGlob:
    def __init__(self, gw):
        self.gw = gw

    def glob(self, pattern):
        if not self.gw.present:
            # no device node: the attempt ends here (os.open is never reached)
            self.gw.open_attempts.append((self.gw.sim.loop.time(), False))
            return []
        # the node may come back under another number (gw.node changes when the device is re-enumerated)
        return [pattern.replace("*", str(self.gw.node))]


class FakeOS:
    """Stands in for the os module inside dali.driver.hid."""
    O_RDWR = 2
    O_NONBLOCK = 2048

    def __init__(self, gw):
        self.gw = gw
        self._open = set()

    def open(self, path, flags):
        ok = self.gw.present and (not self.gw.glob_mode or path.endswith("hidraw%d" % self.gw.node))
        self.gw.open_attempts.append((self.gw.sim.loop.time(), ok))
        if not ok:
            raise OSError(errno.ENOENT, "no such device")
        # like the kernel: the lowest free descriptor number (numbers are reused after close)
        fd = 100
        while fd in self._open:
            fd += 1
        self._open.add(fd)
        self.gw.fd = fd
        self.gw.opens += 1
        self.gw.on_open()
        return self.gw.fd

    def close(self, fd):
        if self.gw.fd == fd:
            self.gw.fd = None
        self._open.discard(fd)
        self.gw.sim.loop.fd_closed(fd)
        self.gw.closes += 1

    def read(self, fd, n):
        if fd != self.gw.fd or not self.gw.present:
            raise OSError(errno.ENODEV, "device gone")
        if self.gw.eof:
            self.gw.present = False     # end of file once; after that the device is simply gone
            return b""
        if not self.gw.readbuf:
            raise BlockingIOError(errno.EAGAIN, "nothing to read")
        return self.gw.readbuf.pop(0)

    def write(self, fd, data):
        if fd != self.gw.fd or not self.gw.present:
            raise OSError(errno.ENODEV, "device gone")
        if self.gw.fail_write_in is not None:
            # the device goes away between two writes that follow each other without an await (n-th write from now)
            self.gw.fail_write_in -= 1
            if self.gw.fail_write_in <= 0:
                self.gw.fail_write_in = None
                self.gw.write_fails = True
                self.gw.present = False
        if self.gw.write_fails:
            raise OSError(errno.EIO, "write failed")
        self.gw.on_write(bytes(data))
        return len(data)


class Gateway:
    """Common state: presence, pending reports (physical FIFO), wire log."""

    def __init__(self, sim):
        self.sim = sim
        self.present = True
        self.node = 0            # number of the device node (relevant when the driver is given a glob pattern)
        self.glob_mode = False
        self.eof = False
        self.write_fails = False
        self.fail_write_in = None
        self.fd = None
        self.opens = self.closes = 0
        self.open_attempts = []  # (virtual time, succeeded)
        self.pending = []       # reports produced by the device, not yet seen by the host
        self.readbuf = []       # report(s) the host can read right now
        self.wire = []          # every frame the host asked the gateway to transmit, in order
        self.writes = []        # raw writes

    def on_open(self):
        self.pending = []
        self.readbuf = []
        self._last_due = 0.0
        self.wire.append({"kind": "open", "t": self.sim.loop.time()})

    def emit(self, report, lat_name):
        """Queue a report; it becomes deliverable lat(lat_name) seconds after the previous one of this
        command (physical order is preserved: due times never decrease)."""
        due = max(getattr(self, "_last_due", 0.0), self.sim.loop.time()) + self.sim.latency(lat_name)
        self._last_due = due
        self.pending.append((due, report))

    def on_write(self, data):
        raise NotImplementedError

    def outcome(self, bits, value):
        """('silent',) | ('value', v) | ('error',) for a frame put on the bus."""
        return self.sim.outcomes.get((bits, value), ("silent",))


class TridonicGateway(Gateway):
    def on_write(self, data):
        self.writes.append(data)
        cmd, seq, ctrl, mode = data[0], data[1], data[2], data[3]
        if cmd == 0x01:           # INIT
            self.wire.append({"kind": "init", "what": seq, "t": self.sim.loop.time()})
            if seq == 0x00:
                self.emit(bytes([MODE_INFO, 0, 0, 2, 5]) + bytes(59), "init")        # firmware 2.5
            elif seq == 0x02:
                self.emit(bytes([MODE_INFO, 0xDE, 0xAD, 0xBE, 0xEF]) + bytes(59), "init")
            return
        if cmd == 0x40:
            self.wire.append({"kind": "power", "on": seq, "t": self.sim.loop.time()})
            return
        if cmd != 0x12:
            self.wire.append({"kind": "other", "cmd": cmd, "t": self.sim.loop.time()})
            return
        bits = {2: 8, 3: 16, 4: 25, 6: 24, 8: 17}.get(mode)
        value = int.from_bytes(data[4:8], "big")
        twice = bool(ctrl & 0x20)
        self.wire.append({"kind": "send", "seq": seq, "bits": bits, "value": value, "twice": twice,
                          "ctrl": ctrl, "mode": mode, "raw_tail": data[8:11], "t": self.sim.loop.time()})
        rtype = R_DALI24 if bits == 24 else R_DALI16
        for _ in range(2 if twice else 1):
            self.emit(tri_report(MODE_RESPONSE, rtype, value, seq), "tx")
        oc = self.outcome(bits, value)
        if oc[0] == "value":
            self.emit(tri_report(MODE_RESPONSE, R_DALI8, oc[1], seq), "answer")
        elif oc[0] == "error":
            self.emit(tri_report(MODE_RESPONSE, R_INFO, BUS_FRAMING_ERROR, seq), "answer")
        else:
            self.emit(tri_report(MODE_RESPONSE, R_NO_FRAME, 0, seq), "answer")


class HassebGateway(Gateway):
    def __init__(self, sim):
        super().__init__(sim)
        self._last = None

    def on_write(self, data):
        self.writes.append(data)
        value = int.from_bytes(data[:2], "big")
        # two identical writes in a row = one send-twice transmission
        if self._last == ("first", value) and self.sim.sendtwice_frames.get((16, value)):
            self._last = None
            self.wire[-1]["twice"] = True
            self.wire[-1]["writes"] = 2
        else:
            self.wire.append({"kind": "send", "bits": 16, "value": value, "twice": False, "writes": 1,
                              "t": self.sim.loop.time()})
            self._last = ("first", value)
            if self.sim.sendtwice_frames.get((16, value)):
                return
        if self.sim.query_frames.get((16, value)):
            oc = self.outcome(16, value)
            if oc[0] == "value":
                self.emit(bytes([2, oc[1]]), "txanswer")
            elif oc[0] == "error":
                self.emit(bytes([3, oc[1] if len(oc) > 1 else 0]), "txanswer")
            else:
                # "second byte is optional response data" (hid.py): a status-only report for some units, two bytes for others
                self.emit(bytes([1]) if (value >> 9) & 1 else bytes([1, 0]), "txanswer")


class HidSim:
    """One simulation: a real hid driver object + gateway model + virtual loop."""

    def __init__(self, kind, initial_seq=1, present=True, reconnect_interval=1, reconnect_limit=None,
                 exceptions_on_send=True, dev_inst_map=None, glob=False, status_neighbours=None):
        import dali.driver.hid as hidmod
        self.hidmod = hidmod
        self.kind = kind
        self.loop = VLoop()
        self.outcomes = {}            # (bits, value) -> outcome
        self.query_frames = {}        # hasseb gateway's "internal table" of commands that get answers
        self.sendtwice_frames = {}
        self.gw = TridonicGateway(self) if kind == "tridonic" else HassebGateway(self)
        self.gw.present = present
        self.gw.glob_mode = glob
        self._saved = (hidmod.os, hidmod.random, hidmod.glob)
        hidmod.os = FakeOS(self.gw)
        hidmod.random = FakeRandom(initial_seq)
        hidmod.glob = FakeGlob(self.gw)
        cls = hidmod.tridonic if kind == "tridonic" else hidmod.hasseb
        self.driver = cls("/dev/dali/fake-hidraw*" if glob else "/dev/dali/fake-hidraw", glob=glob,
                          reconnect_interval=reconnect_interval,
                          reconnect_limit=reconnect_limit, dev_inst_map=dev_inst_map)
        self.driver.exceptions_on_send = exceptions_on_send
        self.latencies = []           # scripted unit draws in [0, 1), consumed in order; default 0.5
        self.status = []              # (virtual time, status string)
        self.traffic = []             # (virtual time, command, response, error flag)
        # other parts of the program listen to the connection status too, registered BEFORE the monitor: one that wants
        # a single notification and unregisters itself inside its callback, one whose callback fails.  The monitor
        # (and the driver) must not notice them.
        self.neighbour_calls = []
        if status_neighbours in ("oneshot", "both"):
            box = {}

            def once(d, s_):
                self.neighbour_calls.append(("oneshot", s_))
                h = box.pop("h", None)
                if h is not None:
                    h.unregister()
            box["h"] = self.driver.connection_status_callback.register(once)
        if status_neighbours in ("raising", "both"):
            def bad(d, s_):
                self.neighbour_calls.append(("raising", s_))
                raise RuntimeError("scripted status listener failure")
            self._bad_handle = self.driver.connection_status_callback.register(bad)
        self.driver.connection_status_callback.register(lambda d, s: self.status.append((self.loop.time(), s)))
        self.tasks = []
        self.delivered = []           # (virtual time, report) in the order the host read them

    # ---- describing commands to the gateway --------------------------------
    def expect(self, cmd, outcome):
        f = cmd.frame
        key = (len(f), f.as_integer)
        self.outcomes[key] = outcome
        self.note(cmd)

    def note(self, cmd):
        f = cmd.frame
        key = (len(f), f.as_integer)
        if cmd.response is not None:
            self.query_frames[key] = True
        if cmd.sendtwice:
            self.sendtwice_frames[key] = True

    LAT = {"init": (0.001, 0.005), "tx": (0.014, 0.040), "answer": (0.013, 0.022), "txanswer": (0.027, 0.062),
           "observe": (0.0, 0.0)}

    def latency(self, name):
        lo, hi = self.LAT[name]
        u = self.latencies.pop(0) if self.latencies else 0.5
        return lo + u * (hi - lo)

    # ---- actions --------------------------------------------------------------
    def connect(self, settle=True):
        self.loop.call_soon(self.driver.connect)
        if settle:
            self.loop.settle()

    def handshake(self, cap=10):
        """Deliver pending reports until the driver reports connected (Tridonic version/serial)."""
        n = 0
        while not self.driver.connected.is_set() and self.gw.pending and n < cap:
            self.deliver()
            self.loop.settle()
            n += 1
        return self.driver.connected.is_set()

    def deliver(self):
        """Hand the next pending report to the host (the fd becomes readable)."""
        if not self.gw.pending:
            return False
        due, rep = self.gw.pending.pop(0)
        if due > self.loop.time():
            self.loop.advance(due - self.loop.time())
        if self.gw.fd is None or self.gw.fd not in self.loop.fd_readers:
            return False           # nobody listening: report lost
        self.gw.readbuf.append(rep)
        # logged with the time the report became readable (= now, unless the loop was kept busy and reads it late)
        self.delivered.append((min(due, self.loop.time()), rep))
        self.loop.fire_reader(self.gw.fd)
        return True

    def inject(self, report, at=None):
        """An unsolicited report (other masters' traffic, stale answers) due at virtual time `at`."""
        at = self.loop.time() if at is None else at
        self.gw.pending.append((at, report))
        self.gw.pending.sort(key=lambda x: x[0])

    def lose(self, notify=True, eof=False):
        """The device disappears.  notify: the fd signals readable (error/EOF) at once."""
        fd = self.gw.fd
        self.gw.present = False
        self.gw.eof = eof
        self.gw.pending = []
        self.gw.readbuf = []
        if notify and fd is not None:
            if eof:
                self.gw.present = True      # read returns b'' rather than raising
            self.loop.fire_reader(fd)

    def restore(self):
        self.gw.present = True
        self.gw.eof = False
        self.gw.write_fails = False
        self.gw.fail_write_in = None

    def start(self, coro, tag=None):
        t = self.loop.create_task(coro)
        t.tag = tag
        self.tasks.append(t)
        return t

    def run_until(self, t_stop, chunk_first=True, max_rounds=5000):
        """Discrete-event simulation up to virtual time t_stop: the next event is the earlier of the
        next due report and the next timer (ties broken by chunk_first)."""
        for r in range(max_rounds):
            self.loop.settle()
            listening = self.gw.fd is not None and self.gw.fd in self.loop.fd_readers
            tc = self.gw.pending[0][0] if (self.gw.pending and listening) else None
            tt = self.loop.next_timer()
            cands = [x for x in (tc, tt) if x is not None and x <= t_stop]
            if not cands:
                if self.loop.time() < t_stop:
                    self.loop.advance(t_stop - self.loop.time())
                self.loop.settle()
                return r
            if tc is not None and tc <= t_stop and (tt is None or tc < tt or (tc == tt and chunk_first)):
                self.deliver()
            else:
                self.loop.advance(max(0.0, tt - self.loop.time()))
        raise RuntimeError("simulation does not reach t_stop")

    def drain(self, max_rounds=4000, max_virtual=600.0, chunk_first=True):
        """Deterministic drain: process reports and timers in time order until every caller is done
        or nothing that could wake one is left (or the virtual-time cap is reached)."""
        t_end = self.loop.time() + max_virtual
        for r in range(max_rounds):
            self.loop.settle()
            if all(t.done() for t in self.tasks):
                self.loop.settle()
                return r
            listening = self.gw.fd is not None and self.gw.fd in self.loop.fd_readers
            tc = self.gw.pending[0][0] if (self.gw.pending and listening) else None
            tt = self.loop.next_timer()
            if tc is None and (tt is None or tt > t_end):
                return r
            if tc is not None and (tt is None or tc < tt or (tc == tt and chunk_first)):
                self.deliver()
            else:
                self.loop.advance(max(0.0, tt - self.loop.time()))
        return max_rounds

    def close(self):
        try:
            self.loop.shutdown()
        finally:
            self.hidmod.os, self.hidmod.random, self.hidmod.glob = self._saved
