"""Library logging on or off.

The harness normally disables logging (the drivers log every injected fault).  Applications do run with the library's
loggers at their most verbose level; the statements behind such levels (formatting, guarded diagnostic blocks) are
code like any other.  `set(True)` enables every level on the root and 'dali' loggers with a handler that formats each record
and throws the text away; `set(False)` restores the quiet default."""
import logging


class _Sink(logging.Handler):
    def emit(self, record):
        try:
            self.format(record)
        except Exception:  # noqa - a record that cannot be formatted is logging's own business (it reports, never raises)
            pass


_SINK = _Sink(level=1)
_STATE = {"verbose": None}


def set(verbose):
    verbose = bool(verbose)
    if _STATE["verbose"] is verbose:
        return
    _STATE["verbose"] = verbose
    # the HID drivers log to the root logger, the serial drivers to 'dali.driver', the legacy ones to loggers of their own
    root = logging.getLogger()
    lg = logging.getLogger("dali")
    if _SINK not in root.handlers:
        root.addHandler(_SINK)
    if verbose:
        logging.disable(logging.NOTSET)
        root.setLevel(1)
        lg.setLevel(1)
    else:
        root.setLevel(logging.WARNING)
        lg.setLevel(logging.NOTSET)
        logging.disable(logging.CRITICAL)


def derived(case):
    """Deterministic choice for cases that do not say: about one case in three runs with verbose logging."""
    import zlib
    return zlib.crc32(repr(sorted(case.items(), key=repr)).encode()) % 3 == 0
