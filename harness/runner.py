"""Runner shared by every property check.

    ./check C07 [--tier quick|thorough] [--replay FILE]

* imports the library from the *current working tree* of $VERIF_REPO (/repo)
* runs committed regression replays for the property, then the property's
  generated-input search (props/cNN.py: run(ctx))
* buckets violations by root-cause signature, matches them against
  KNOWN_FINDINGS.txt, writes replay files and evidence/<id>.json
* exit 0: property held on everything explored (KNOWN-FINDING lines allowed)
  exit 1: at least one "VIOLATION property=<id> replay=<path>" line printed
  exit 2: harness error (never a VIOLATION line)
"""
import argparse
import collections
import hashlib
import importlib
import json
import multiprocessing
import os
import re
import sys
import time
import traceback
import warnings

# Programs (and their test suites) run with warnings turned into errors.  A warning attributed to the library's own
# modules - one it issues itself, or a deprecated construct it uses - becomes an exception in every check; the
# harness's and Hypothesis's own warnings are left alone.
warnings.filterwarnings("error", module=r"dali(\.|$)")
# ... and so does a warning the library issues on behalf of its caller (stacklevel=2 lands in the harness): the warning
# categories a library uses for that are errors wherever they surface.  (ResourceWarning and friends stay as they are.)
for _cat in (UserWarning, RuntimeWarning, DeprecationWarning, FutureWarning, PendingDeprecationWarning, SyntaxWarning):
    warnings.filterwarnings("error", category=_cat, module=r"(harness|props|__main__)(\.|$)")

VERIF = os.path.dirname(os.path.dirname(os.path.abspath(__file__)))
REPO = os.path.abspath(os.environ.get("VERIF_REPO", "/repo"))
if REPO not in sys.path:
    sys.path.insert(0, REPO)
if VERIF not in sys.path:
    sys.path.insert(1, VERIF)
DEPS = os.path.join(VERIF, ".deps")
if os.path.isdir(DEPS) and DEPS not in sys.path:
    sys.path.append(DEPS)

NPROC = int(os.environ.get("VERIF_NPROC", "16"))
MAX_FPS = 3_000_000
MAX_SAMPLES = 10


def fingerprint(obj):
    """Stable 64-bit fingerprint of a JSON-serialisable case."""
    s = json.dumps(obj, sort_keys=True, default=repr)
    return int.from_bytes(hashlib.blake2b(s.encode(), digest_size=8).digest(), "big")


class Result:
    """Mergeable partial result of a shard / a search."""

    def __init__(self):
        self.evaluations = 0
        self.nt_count = 0          # non-trivial cases that are distinct by construction
        self.nt_fps = set()        # fingerprints of non-trivial cases (distinctness measured)
        self.hist = collections.Counter()
        self.samples = []
        self.violations = {}       # sig -> dict(case=, msg=, size=)
        self.excluded = collections.Counter()
        self.extra = {}
        self.exhaustive = None     # None: not stated; True/False

    # -- recording -------------------------------------------------------
    def count(self, n=1):
        self.evaluations += n

    def nontrivial(self, case=None, n=1):
        """Record non-trivial cases: either a case to fingerprint, or n cases
        that the enumerator guarantees to be pairwise distinct."""
        if case is None:
            self.nt_count += n
        elif len(self.nt_fps) < MAX_FPS:
            self.nt_fps.add(fingerprint(case))

    def nontrivial_key(self, key):
        if len(self.nt_fps) < MAX_FPS:
            self.nt_fps.add(hash(key) & 0xFFFFFFFFFFFFFFFF)

    def label(self, name, n=1):
        self.hist[name] += n

    def sample(self, case, cls=None):
        """Keep a few actual cases; at most one per class if cls given."""
        if len(self.samples) >= MAX_SAMPLES:
            return
        if cls is not None:
            if any(s.get("class") == cls for s in self.samples if isinstance(s, dict)):
                return
            self.samples.append({"class": cls, "case": case})
        else:
            self.samples.append(case)

    def violation(self, sig, case, msg):
        try:
            size = len(json.dumps(case, default=repr))
        except Exception:
            size = 1 << 30
        cur = self.violations.get(sig)
        if cur is None or size < cur["size"]:
            self.violations[sig] = {"case": case, "msg": str(msg)[:2000], "size": size}

    # -- merging -----------------------------------------------------------
    def merge(self, other):
        self.evaluations += other.evaluations
        self.nt_count += other.nt_count
        if len(self.nt_fps) < MAX_FPS:
            self.nt_fps |= other.nt_fps
        self.hist.update(other.hist)
        for s in other.samples:
            if len(self.samples) >= MAX_SAMPLES or s in self.samples:
                continue
            if isinstance(s, dict) and "class" in s and any(
                    isinstance(t, dict) and t.get("class") == s["class"] for t in self.samples):
                continue
            self.samples.append(s)
        for sig, v in other.violations.items():
            cur = self.violations.get(sig)
            if cur is None or v["size"] < cur["size"]:
                self.violations[sig] = v
        self.excluded.update(other.excluded)
        for k, v in other.extra.items():
            if isinstance(v, (int, float)) and isinstance(self.extra.get(k), (int, float)):
                self.extra[k] += v
            elif isinstance(v, list) and isinstance(self.extra.get(k), list):
                for x in v:
                    if x not in self.extra[k]:
                        self.extra[k].append(x)
            elif isinstance(v, dict) and isinstance(self.extra.get(k), dict):
                self.extra[k].update(v)
            else:
                self.extra.setdefault(k, v)
        if other.exhaustive is not None:
            self.exhaustive = other.exhaustive if self.exhaustive is None \
                else (self.exhaustive and other.exhaustive)
        return self

    @property
    def distinct_nontrivial(self):
        return self.nt_count + len(self.nt_fps)


def library_frame(tb):
    """Innermost traceback frame that lies in the library under test, or None."""
    hit = None
    for fs in traceback.extract_tb(tb):
        fn = os.path.abspath(fs.filename)
        if fn.startswith(os.path.join(REPO, "dali") + os.sep):
            hit = "%s:%s" % (os.path.relpath(fn, REPO), fs.name)
    return hit


def exc_sig(prefix, exc):
    """Root-cause signature for an unexpected exception: type + innermost library frame."""
    where = library_frame(exc.__traceback__) or "harness"
    return "%s:%s@%s" % (prefix, type(exc).__name__, where)


def _shard_entry(packed):
    fn, arg = packed
    try:
        # every shard starts with the library's logging at its most verbose level (harness/verbose.py: records are
        # formatted and dropped): code behind isEnabledFor(DEBUG) guards runs in the checks as it does in a program that
        # debugs.  Driver scenarios and receiver streams choose per case (and end quiet).
        try:
            from harness import verbose as _verbose
            _verbose.set(True)
        except Exception:  # noqa
            pass
        r = fn(arg)
        if type(r).__name__ != "Result":       # (by name: in a spawned child this module is loaded twice)
            raise TypeError("shard %r returned %r" % (fn, type(r)))
        return ("ok", r)
    except BaseException as e:  # noqa: transported to the parent
        lib = library_frame(e.__traceback__)
        return ("err", (type(e).__name__, str(e)[:500], lib, traceback.format_exc(), repr(arg)[:300]))


class HarnessError(Exception):
    pass


class Ctx:
    def __init__(self, prop, tier, seed):
        self.prop = prop
        self.tier = tier
        self.seed = seed
        self.result = Result()
        self.assumptions = []
        self.t0 = time.time()

    @property
    def quick(self):
        return self.tier == "quick"

    def pmap(self, fn, args, nproc=None, fresh=False):
        """Run fn(arg)->Result over args on a fork pool and merge in order.
        fresh=True: every shard runs in its own newly forked process (for shards that define classes or otherwise
        leave marks in the library's registries)."""
        args = list(args)
        nproc = min(nproc or NPROC, max(1, len(args)))
        if nproc == 1 and not fresh:
            outs = [_shard_entry((fn, a)) for a in args]
        else:
            # fresh shards get a newly started interpreter (spawn): nothing the parent has executed so far - the
            # regression replays, for one - has left marks in the library's caches and registries
            mp = multiprocessing.get_context("spawn" if fresh else "fork")
            with mp.Pool(nproc, maxtasksperchild=1 if fresh else None) as pool:
                outs = pool.map(_shard_entry, [(fn, a) for a in args], chunksize=1)
        for kind, payload in outs:
            if kind == "ok":
                self.result.merge(payload)
            else:
                name, msg, lib, tb, arg = payload
                if lib:
                    # an exception from inside the library that the property's
                    # oracle did not anticipate: reported, with its own signature
                    self.result.violation(
                        "%s:uncaught:%s@%s" % (self.prop, name, lib),
                        {"shard": arg, "traceback": tb[-1500:]},
                        "uncaught %s: %s" % (name, msg))
                else:
                    raise HarnessError("shard failed:\n" + tb)
        return self.result

    def elapsed(self):
        return time.time() - self.t0


def load_known():
    known = {}
    path = os.path.join(VERIF, "KNOWN_FINDINGS.txt")
    if os.path.exists(path):
        for line in open(path):
            line = line.strip()
            m = re.match(r"finding:\s+property=(\S+)\s+sig=(\S+)\s*(.*)", line)
            if m:
                known.setdefault(m.group(1), {})[m.group(2)] = m.group(3)
    return known


def write_replay(prop, sig, v):
    d = os.path.join(VERIF, "replays", "found")
    os.makedirs(d, exist_ok=True)
    safe = re.sub(r"[^A-Za-z0-9_.-]+", "_", sig)[:120]
    path = os.path.join(d, "%s-%s.json" % (prop, safe))
    with open(path, "w") as f:
        json.dump({"property": prop, "sig": sig, "msg": v["msg"], "case": v["case"]},
                  f, indent=1, sort_keys=True, default=repr)
        f.write("\n")
    return path


def run_replay_file(mod, path):
    data = json.load(open(path))
    out = []
    try:
        vs = mod.run_case(data["case"])
    except Exception as e:  # noqa
        if library_frame(e.__traceback__):
            vs = [(exc_sig(mod.ID + ":uncaught", e), "uncaught %r" % (e,))]
        else:
            raise
    for sig, msg in vs or []:
        out.append((sig, msg, data["case"]))
    return out


def main(argv=None):
    ap = argparse.ArgumentParser()
    ap.add_argument("prop")
    ap.add_argument("--tier", default=os.environ.get("VERIF_TIER", "quick"),
                    choices=["quick", "thorough"])
    ap.add_argument("--replay")
    ap.add_argument("--seed", type=int, default=None)
    ap.add_argument("--optimized-pass", action="store_true", help=argparse.SUPPRESS)
    a = ap.parse_args(argv)
    prop = a.prop.upper()
    seed = a.seed if a.seed is not None else int(os.environ.get("VERIF_SEED", "0") or 0)
    t0 = time.time()
    try:
        import dali
        if not os.path.abspath(dali.__file__).startswith(REPO + os.sep):
            raise HarnessError("dali imported from %s, not %s" % (dali.__file__, REPO))
        mod = importlib.import_module("props." + prop.lower())
        ctx = Ctx(prop, a.tier, seed)
        known = load_known().get(prop, {})

        if a.replay:
            vs = run_replay_file(mod, a.replay)
            for sig, msg, case in vs:
                if sig in known:
                    print("KNOWN-FINDING: property=%s %s %s" % (prop, sig, known[sig]))
                else:
                    print("VIOLATION property=%s replay=%s" % (prop, a.replay))
                    print("  sig=%s %s" % (sig, msg))
            bad = [v for v in vs if v[0] not in known]
            if not vs:
                print("replay %s: property held" % a.replay)
            return 1 if bad else 0

        # 1. regression replays (seconds)
        rdir = os.path.join(VERIF, "replays", "regress")
        n_replays = 0
        if os.path.isdir(rdir):
            for fn in sorted(os.listdir(rdir)):
                if fn.startswith(prop + "-") and fn.endswith(".json"):
                    n_replays += 1
                    for sig, msg, case in run_replay_file(mod, os.path.join(rdir, fn)):
                        ctx.result.violation(sig, case, "[replay %s] %s" % (fn, msg))
        if a.optimized_pass:
            # (child of the step below: this interpreter runs with -OO; print what was found and leave)
            mod.run(ctx)
            for sig in sorted(ctx.result.violations):
                v = ctx.result.violations[sig]
                sys.stdout.write("OPT-VIOLATION\t" + json.dumps({"sig": sig, "case": v["case"], "msg": v["msg"]}, default=repr) + "\n")
            sys.stdout.write("OPT-DONE\t%d\t%d\n" % (ctx.result.evaluations, ctx.result.distinct_nontrivial))
            return 0
        # 2. generated-input search
        mod.run(ctx)
        res = ctx.result
        # 2b. the same search once more in an interpreter started with -OO (assert statements and docstrings are gone, as
        #     in a production deployment with PYTHONOPTIMIZE=2): whatever the library checks must still be checked
        if getattr(mod, "OPTIMIZED_PASS", False):
            import subprocess
            env = dict(os.environ, VERIF_REPO=REPO, PYTHONHASHSEED="0", PYTHONDONTWRITEBYTECODE="1")
            r = subprocess.run([sys.executable, "-OO", "-B", os.path.abspath(__file__), prop, "--tier", a.tier, "--seed", str(seed),
                                "--optimized-pass"], capture_output=True, text=True, env=env, cwd=VERIF)
            done = [ln for ln in r.stdout.splitlines() if ln.startswith("OPT-DONE\t")]
            if r.returncode != 0 or not done:
                lib_tb = "dali/" in r.stderr
                if lib_tb:
                    res.violation("%s:python-OO:run-failed" % prop, {"optimized_pass": True}, "the check run under python -OO failed: " + r.stderr[-700:])
                else:
                    raise HarnessError("optimized pass failed: %s" % r.stderr[-1500:])
            for ln in r.stdout.splitlines():
                if ln.startswith("OPT-VIOLATION\t"):
                    d = json.loads(ln.split("\t", 1)[1])
                    res.violation(d["sig"] + ":python-OO", d["case"], "[interpreter started with -OO] " + d["msg"])
            if done:
                res.extra["evaluations_under_python_OO"] = int(done[0].split("\t")[1])

        # 3. report
        new = 0
        for sig in sorted(res.violations):
            v = res.violations[sig]
            if sig in known:
                print("KNOWN-FINDING: property=%s %s %s" % (prop, sig, known[sig]))
            else:
                path = write_replay(prop, sig, v)
                new += 1
                print("VIOLATION property=%s replay=%s" % (prop, path))
                print("  sig=%s %s" % (sig, v["msg"][:600]))
        wall = time.time() - t0
        cov = {
            "evaluations": res.evaluations,
            "distinct_nontrivial": res.distinct_nontrivial,
            "rule": getattr(mod, "RULE", ""),
            "samples": res.samples,
            "exhaustive": bool(res.exhaustive),
            "histogram": dict(sorted(res.hist.items())),
            "excluded_known": dict(res.excluded),
            "regression_replays_run": n_replays,
            "violation_signatures": sorted(res.violations),
        }
        cov.update(res.extra)
        ev = {
            "property_id": prop,
            "tier": a.tier,
            "seed": seed,
            "level": getattr(mod, "LEVEL", "exploration"),
            "coverage": cov,
            "assumptions": list(getattr(mod, "ASSUMPTIONS", [])) + ctx.assumptions,
            "wall_s": round(wall, 2),
            "violations": new,
        }
        # runs against a scratch copy (sensitivity probes) must not overwrite real evidence
        evdir = os.path.join(VERIF, "evidence" if REPO == "/repo" else ".scratch-evidence")
        os.makedirs(evdir, exist_ok=True)
        with open(os.path.join(evdir, prop + ".json"), "w") as f:
            json.dump(ev, f, indent=1, sort_keys=True, default=repr)
            f.write("\n")
        print("%s %s seed=%d: evaluations=%d distinct_nontrivial=%d violations=%d known=%d wall=%.1fs"
              % (prop, a.tier, seed, res.evaluations, res.distinct_nontrivial, new,
                 len(res.violations) - new, wall))
        return 1 if new else 0
    except HarnessError as e:
        sys.stderr.write("HARNESS-ERROR %s: %s\n" % (prop, e))
        return 2
    except Exception as e:
        lib = library_frame(e.__traceback__)
        if lib:
            # an exception from inside the library that escaped the property module outside any shard:
            # the property's oracle did not anticipate it; report it rather than hide it as a harness error
            sig = "%s:uncaught:%s@%s" % (prop, type(e).__name__, lib)
            path = write_replay(prop, sig, {"case": {"traceback": traceback.format_exc()[-3000:]}, "msg": repr(e)})
            print("VIOLATION property=%s replay=%s" % (prop, path))
            print("  sig=%s uncaught %r" % (sig, e))
            return 1
        sys.stderr.write("HARNESS-ERROR %s:\n%s\n" % (prop, traceback.format_exc()))
        return 2


if __name__ == "__main__":
    # make "harness.runner" and "__main__" the same module for pickling of Result
    sys.modules.setdefault("harness.runner", sys.modules["__main__"])
    sys.exit(main())
