"""Two asyncio HID driver objects alive in one program, each on its own gateway model, on ONE virtual-time loop.

A program that drives two DALI lines creates two driver objects; whatever one of them keeps at class or module
level is shared with the other.  The two gateways are independent devices: each answers only what was written
to it.  Built from the same parts as harness/gateways.py (real driver classes, FakeOS semantics, VLoop).
"""
import errno

from harness.vloop import VLoop
from harness.gateways import TridonicGateway, HassebGateway, FakeRandom, FakeGlob


class _Side:
    """What a Gateway model needs from 'its' simulation: the loop, latencies, scripted outcomes."""
    LAT = {"init": (0.001, 0.005), "tx": (0.014, 0.040), "answer": (0.013, 0.022), "txanswer": (0.027, 0.062),
           "observe": (0.0, 0.0)}

    def __init__(self, loop, latencies):
        self.loop = loop
        self.outcomes = {}
        self.query_frames = {}
        self.sendtwice_frames = {}
        self.latencies = list(latencies)

    def latency(self, name):
        lo, hi = self.LAT[name]
        u = self.latencies.pop(0) if self.latencies else 0.5
        return lo + u * (hi - lo)

    def expect(self, cmd, outcome):
        f = cmd.frame
        key = (len(f), f.as_integer)
        self.outcomes[key] = outcome
        if cmd.response is not None:
            self.query_frames[key] = True
        if cmd.sendtwice:
            self.sendtwice_frames[key] = True


class TwinOS:
    """Stands in for `os` inside dali.driver.hid; dispatches by device path / descriptor to one of two gateways."""
    O_RDWR = 2
    O_NONBLOCK = 2048

    def __init__(self, gws, loop):
        self.gws = gws          # {"A": gateway, "B": gateway}
        self.loop = loop
        self.fds = {}           # fd -> gateway

    def open(self, path, flags):
        gw = self.gws[path[-1]]
        gw.open_attempts.append((self.loop.time(), gw.present))
        if not gw.present:
            raise OSError(errno.ENOENT, "no such device")
        fd = 100
        while fd in self.fds:
            fd += 1
        self.fds[fd] = gw
        gw.fd = fd
        gw.opens += 1
        gw.on_open()
        return fd

    def close(self, fd):
        gw = self.fds.pop(fd, None)
        if gw is not None and gw.fd == fd:
            gw.fd = None
        self.loop.fd_closed(fd)

    def read(self, fd, n):
        gw = self.fds.get(fd)
        if gw is None or not gw.present:
            raise OSError(errno.ENODEV, "device gone")
        if not gw.readbuf:
            raise BlockingIOError(errno.EAGAIN, "nothing to read")
        return gw.readbuf.pop(0)

    def write(self, fd, data):
        gw = self.fds.get(fd)
        if gw is None or not gw.present:
            raise OSError(errno.ENODEV, "device gone")
        gw.on_write(bytes(data))
        return len(data)


class TwinHidSim:
    def __init__(self, kind, seq0=(1, 1), latencies=((), ())):
        import dali.driver.hid as hidmod
        self.hidmod = hidmod
        self.kind = kind
        self.loop = VLoop()
        self.sides = {k: _Side(self.loop, latencies[i]) for i, k in enumerate("AB")}
        gwcls = TridonicGateway if kind == "tridonic" else HassebGateway
        self.gws = {k: gwcls(self.sides[k]) for k in "AB"}
        for k in "AB":
            self.sides[k].gw = self.gws[k]
        self._saved = (hidmod.os, hidmod.random, hidmod.glob)
        hidmod.os = TwinOS(self.gws, self.loop)
        cls = hidmod.tridonic if kind == "tridonic" else hidmod.hasseb
        self.drivers = {}
        for i, k in enumerate("AB"):
            hidmod.random = FakeRandom(seq0[i])          # consulted when the driver object is created / connects
            self.drivers[k] = cls("/dev/dali/fake-hidraw" + k)
            self.drivers[k].exceptions_on_send = True
        self._random = {k: FakeRandom(seq0[i]) for i, k in enumerate("AB")}
        self.tasks = []

    def connect(self):
        for k in "AB":
            self.hidmod.random = self._random[k]
            self.loop.call_soon(self.drivers[k].connect)
            self.loop.settle()
        for _ in range(20):
            if all(d.connected.is_set() for d in self.drivers.values()):
                break
            if not self.deliver_next():
                break
            self.loop.settle()
        return all(d.connected.is_set() for d in self.drivers.values())

    def _next_pending(self):
        best = None
        for k, gw in self.gws.items():
            if gw.pending and gw.fd is not None and gw.fd in self.loop.fd_readers:
                if best is None or gw.pending[0][0] < best[0]:
                    best = (gw.pending[0][0], k)
        return best

    def start(self, coro):
        t = self.loop.create_task(coro)
        self.tasks.append(t)
        return t

    def drain(self, max_rounds=4000, max_virtual=30.0):
        t_end = self.loop.time() + max_virtual
        for _ in range(max_rounds):
            self.loop.settle()
            if all(t.done() for t in self.tasks):
                self.loop.settle()
                return True
            nxt = self._next_pending()
            tt = self.loop.next_timer()
            if nxt is None and (tt is None or tt > t_end):
                return False
            if nxt is not None and (tt is None or nxt[0] <= tt):
                self._pop_and_deliver(nxt[1])
            else:
                self.loop.advance(max(0.0, tt - self.loop.time()))
        return False

    def _pop_and_deliver(self, k):
        gw = self.gws[k]
        due, rep = gw.pending.pop(0)
        if due > self.loop.time():
            self.loop.advance(due - self.loop.time())
        if gw.fd is None or gw.fd not in self.loop.fd_readers:
            return False
        gw.readbuf.append(rep)
        self.loop.fire_reader(gw.fd)
        # two descriptors can become readable within one pass of the loop (select reports both): a report of the OTHER
        # interface that is due within half a millisecond is delivered in the same iteration
        for k2, g2 in self.gws.items():
            if k2 != k and g2.pending and g2.fd is not None and g2.fd in self.loop.fd_readers \
                    and g2.pending[0][0] <= self.loop.time() + 0.0005:
                _due2, rep2 = g2.pending.pop(0)
                g2.readbuf.append(rep2)
                self.loop.fire_reader(g2.fd)
        return True

    def deliver_next(self):
        nxt = self._next_pending()
        if nxt is None:
            return False
        return self._pop_and_deliver(nxt[1])

    def close(self):
        try:
            self.loop.shutdown()
        finally:
            self.hidmod.os, self.hidmod.random, self.hidmod.glob = self._saved
