"""Frame-level specification model of an IEC 62386-102 control gear (plus the Tc subset of -209).

The model never imports the library.  It sees forward frames as (bits, integer, sent_twice) and
answers None or an 8-bit integer.  It decodes with its own opcode constants (transcribed from
IEC 62386-102:2014 Tables 15/16 and -209 Table 7), so an *encoding* bug in the library shows up as
the unit doing the wrong thing.

Implemented (and only this): addressing, DTR0/1/2, send-twice rule for configuration commands,
device-type rule for application-extended commands, groups, short address, device types
(QUERY DEVICE TYPE / NEXT DEVICE TYPE with the adjacency rule), the initialisation process of 102
9.14.2 / 11.7, memory banks per 102 9.10, DT8 colour-temperature registers.
"""

DISABLED, ENABLED, WITHDRAWN = "DISABLED", "ENABLED", "WITHDRAWN"

# special commands (first byte)
SP_TERMINATE, SP_DTR0, SP_INITIALISE, SP_RANDOMISE, SP_COMPARE, SP_WITHDRAW, SP_PING = 0xA1, 0xA3, 0xA5, 0xA7, 0xA9, 0xAB, 0xAD
SP_SEARCHH, SP_SEARCHM, SP_SEARCHL, SP_PROGRAM, SP_VERIFY, SP_QUERYSHORT = 0xB1, 0xB3, 0xB5, 0xB7, 0xB9, 0xBB
SP_ENABLE_DT, SP_DTR1, SP_DTR2, SP_WRITE, SP_WRITE_NR = 0xC1, 0xC3, 0xC5, 0xC7, 0xC9

# standard commands (opcode byte)
OP_SET_SHORT, OP_ENABLE_WRITE = 0x80, 0x81
OP_QUERY_STATUS, OP_QUERY_PRESENT, OP_QUERY_MISSING_SHORT = 0x90, 0x91, 0x96
OP_QUERY_DTR0, OP_QUERY_DT, OP_QUERY_DTR1, OP_QUERY_DTR2 = 0x98, 0x99, 0x9C, 0x9D
OP_QUERY_ACTUAL, OP_QUERY_NEXT_DT = 0xA0, 0xA7
OP_QUERY_GROUPS_LO, OP_QUERY_GROUPS_HI = 0xC0, 0xC1
OP_QUERY_RANDOM_H, OP_QUERY_RANDOM_M, OP_QUERY_RANDOM_L, OP_READ_MEMORY = 0xC2, 0xC3, 0xC4, 0xC5

# device type 8 (IEC 62386-209)
DT8_ACTIVATE, DT8_SET_TEMP_TC, DT8_STORE_TC_LIMIT, DT8_QUERY_COLOUR_VALUE = 0xE2, 0xE7, 0xF2, 0xFA
DT8_CONFIG = set(range(0xF0, 0xF7))

YES = 0xFF


class MemBank:
    """One memory bank.  contents[i] is an int or None (location not implemented)."""

    def __init__(self, contents, writable=(), lockable=(), latchable=False, unlock_value=0x55):
        self.contents = list(contents)
        self.writable = set(writable)      # writable without unlocking (location 2, the lock byte, is always writable)
        self.lockable = set(lockable)      # writable only while the lock byte holds unlock_value
        self.latchable = latchable
        self.unlock_value = unlock_value
        self.snapshot = None               # latched copy
        self.drift = None                  # optional callable(bank) run after every read of live memory

    @property
    def last(self):
        return self.contents[0]

    def readable(self, loc):
        if loc >= len(self.contents) or self.contents[loc] is None:
            return None
        if self.contents[0] is None or loc > self.contents[0]:
            return None
        return loc

    def read(self, loc):
        if self.readable(loc) is None:
            return None
        if self.snapshot is not None and loc != 2:
            v = self.snapshot[loc]
        else:
            v = self.contents[loc]
        return v

    def write(self, loc, value):
        """Returns the value written or None (answer NO)."""
        if self.readable(loc) is None:
            return None
        if loc == 2:
            self.contents[2] = value
            if self.latchable:
                if value == 0xAA:
                    self.snapshot = list(self.contents)
                else:
                    self.snapshot = None
            return value
        if loc in self.lockable:
            if self.contents[2] != self.unlock_value:
                return None
        elif loc not in self.writable:
            return None
        self.contents[loc] = value
        return value


class GearModel:
    def __init__(self, short=None, groups=(), device_types=(), randoms=(), fallback_random=0,
                 banks=None, name="gear"):
        self.name = name
        self.short = short
        self.groups = set(groups)
        self.device_types = sorted(device_types)
        self.randoms = list(randoms)          # scripted RANDOMISE results
        self.fallback_random = fallback_random
        self.random = 0xFFFFFF
        self.search = 0xFFFFFF
        self.init_state = DISABLED
        self.dtr0 = self.dtr1 = self.dtr2 = 0
        self.level = 0
        self.enabled_dt = None                # device type enabled for the next frame only
        self.prev_was_dt_query = False        # adjacency rule for QUERY NEXT DEVICE TYPE
        self.dt_queue = []
        self.write_enabled = False
        self.banks = banks or {}
        # DT8 Tc registers, raw 16-bit
        self.temp_tc = 0xFFFF
        self.tc = 0xFFFF
        self.tc_limits = [0xFFFF] * 4         # coolest, warmest, physical coolest, physical warmest
        self.colour_values = {}               # selector -> 16-bit value (for QUERY COLOUR VALUE)
        # behaviour switches used for fault injection
        self.ignore_program = False           # never stores PROGRAM SHORT ADDRESS
        self.mute_verify = False              # never answers VERIFY SHORT ADDRESS
        self.ignore_set_short = False         # SET SHORT ADDRESS has no effect (the stored address is stuck)
        self.randomise_latency = 0.0          # seconds of bus time a RANDOMISE needs before the new random address is there
        self._pending_random = None
        self.program_failures_left = 0        # this many further PROGRAM SHORT ADDRESS that reach the unit are not stored
        self.no_dtr0_increment = False        # memory access does not advance DTR0
        # observations
        self.flags = set()
        self.randomise_count = 0
        self.log = []

    # ------------------------------------------------------------------
    def elapse(self, dt):
        if self._pending_random is not None:
            value, left = self._pending_random
            left -= dt
            if left <= 1e-9:
                self.random = value
                self._pending_random = None
            else:
                self._pending_random = (value, left)

    def _draw(self):
        self.randomise_count += 1
        if self.randoms:
            return self.randoms.pop(0)
        return self.fallback_random

    def _addressed(self, hi):
        a7 = hi >> 1
        if a7 < 0x40:
            return self.short == a7
        if a7 < 0x50:
            return (a7 & 0x0F) in self.groups
        if a7 == 0x7E:
            return self.short is None
        if a7 == 0x7F:
            return True
        return False

    def receive(self, bits, v, twice):
        """Process one forward frame; return None or the 8-bit answer."""
        if bits != 16:
            # control gear ignores frames of other lengths; they still break adjacency
            self.enabled_dt = None
            self.prev_was_dt_query = False
            self.write_enabled = False
            return None
        hi, lo = v >> 8, v & 0xFF
        dt = self.enabled_dt
        self.enabled_dt = None
        was_dt_query = self.prev_was_dt_query
        self.prev_was_dt_query = False
        special = 0xA0 <= hi <= 0xCB
        # writeEnableState is cleared by every command except the memory-write family,
        # whether or not the command is addressed to this unit
        keeps_write = (special and hi in (SP_DTR0, SP_DTR1, SP_DTR2, SP_WRITE, SP_WRITE_NR)) or \
                      (not special and (hi & 1) and lo in (OP_QUERY_DTR0, OP_QUERY_DTR1, OP_QUERY_DTR2))
        if not keeps_write:
            self.write_enabled = False
        if special:
            if hi & 1:
                return self._special(hi, lo, twice)
            return None
        if not (hi & 1):
            # direct arc power
            if self._addressed(hi) and lo != 0xFF:
                self.level = lo
            return None
        if not self._addressed(hi):
            return None
        return self._standard(lo, twice, dt, was_dt_query)

    # ------------------------------------------------------------------
    def _special(self, hi, lo, twice):
        if hi == SP_TERMINATE:
            if lo == 0:
                self.init_state = DISABLED
        elif hi == SP_DTR0:
            self.dtr0 = lo
        elif hi == SP_DTR1:
            self.dtr1 = lo
        elif hi == SP_DTR2:
            self.dtr2 = lo
        elif hi == SP_INITIALISE:
            if not twice:
                return None
            if lo == 0x00:
                hit = True
            elif lo == 0xFF:
                hit = self.short is None
            elif lo & 0x81 == 0x01:
                hit = self.short == (lo >> 1)
            else:
                hit = False
            if hit and self.init_state == DISABLED:
                self.init_state = ENABLED
        elif hi == SP_RANDOMISE:
            if twice and lo == 0 and self.init_state != DISABLED:
                if self.randomise_latency > 0:
                    # "RANDOMISE can take up to 100 ms": the new random address is there after that time on the bus
                    self._pending_random = (self._draw(), self.randomise_latency)
                else:
                    self.random = self._draw()
        elif hi == SP_COMPARE:
            if lo == 0 and self.init_state == ENABLED and self.random <= self.search:
                return YES
        elif hi == SP_WITHDRAW:
            if lo == 0 and self.init_state == ENABLED and self.random == self.search:
                self.init_state = WITHDRAWN
        elif hi == SP_SEARCHH:
            self.search = (self.search & 0x00FFFF) | (lo << 16)
        elif hi == SP_SEARCHM:
            self.search = (self.search & 0xFF00FF) | (lo << 8)
        elif hi == SP_SEARCHL:
            self.search = (self.search & 0xFFFF00) | lo
        elif hi == SP_PROGRAM:
            if self.init_state != DISABLED and self.random == self.search:
                if self.init_state == WITHDRAWN:
                    self.flags.add("program-hit-withdrawn")
                self.flags.add("program-matched")
                store = not self.ignore_program
                if self.program_failures_left > 0:
                    self.program_failures_left -= 1
                    store = False
                if store:
                    if lo == 0xFF:
                        self.short = None
                    elif lo & 0x81 == 0x01:
                        self.short = lo >> 1
                if lo & 0x81 == 0x01 and (self.mute_verify or self.short != lo >> 1):
                    # told to take this address, but a VERIFY SHORT ADDRESS for it will go unanswered by this unit
                    self.flags.add("program-not-confirmed")
        elif hi == SP_VERIFY:
            if self.init_state != DISABLED and lo & 0x81 == 0x01 and self.short == (lo >> 1) and not self.mute_verify:
                return YES
        elif hi == SP_QUERYSHORT:
            if lo == 0 and self.init_state != DISABLED and self.random == self.search:
                return 0xFF if self.short is None else (self.short << 1) | 1
        elif hi == SP_ENABLE_DT:
            self.enabled_dt = lo
        elif hi in (SP_WRITE, SP_WRITE_NR):
            return self._write_memory(lo, reply=(hi == SP_WRITE))
        return None

    # ------------------------------------------------------------------
    def _standard(self, op, twice, dt, was_dt_query):
        if 0x20 <= op <= 0x81 and not twice:
            return None                       # configuration commands must be received twice
        if 0x60 <= op <= 0x6F:
            self.groups.add(op & 0x0F)
        elif 0x70 <= op <= 0x7F:
            self.groups.discard(op & 0x0F)
        elif op == OP_SET_SHORT:
            if self.ignore_set_short:
                pass                          # (fault injection) the short address is stuck
            elif self.dtr0 == 0xFF:
                self.short = None
            elif self.dtr0 & 0x81 == 0x01:
                self.short = self.dtr0 >> 1
        elif op == OP_ENABLE_WRITE:
            self.write_enabled = True
        elif op == OP_QUERY_PRESENT:
            return YES
        elif op == OP_QUERY_MISSING_SHORT:
            return YES if self.short is None else None
        elif op == OP_QUERY_DTR0:
            return self.dtr0
        elif op == OP_QUERY_DTR1:
            return self.dtr1
        elif op == OP_QUERY_DTR2:
            return self.dtr2
        elif op == OP_QUERY_ACTUAL:
            return self.level
        elif op == OP_QUERY_DT:
            if len(self.device_types) == 0:
                return 254
            if len(self.device_types) == 1:
                return self.device_types[0]
            self.dt_queue = list(self.device_types)
            self.prev_was_dt_query = True
            return 255
        elif op == OP_QUERY_NEXT_DT:
            if not was_dt_query:
                return None
            self.prev_was_dt_query = True
            if self.dt_queue:
                return self.dt_queue.pop(0)
            return 254
        elif op == OP_QUERY_GROUPS_LO:
            return sum(1 << g for g in self.groups if g < 8)
        elif op == OP_QUERY_GROUPS_HI:
            return sum(1 << (g - 8) for g in self.groups if g >= 8)
        elif op == OP_QUERY_RANDOM_H:
            return (self.random >> 16) & 0xFF
        elif op == OP_QUERY_RANDOM_M:
            return (self.random >> 8) & 0xFF
        elif op == OP_QUERY_RANDOM_L:
            return self.random & 0xFF
        elif op == OP_READ_MEMORY:
            return self._read_memory()
        elif 0xE0 <= op <= 0xFE:
            if dt is None or dt not in self.device_types:
                return None                   # application-extended command without its ENABLE DEVICE TYPE
            if dt == 8:
                return self._dt8(op, twice)
        return None

    # ------------------------------------------------------------------
    def _bump_dtr0(self):
        if not self.no_dtr0_increment and self.dtr0 < 0xFF:
            self.dtr0 += 1

    def _read_memory(self):
        bank = self.banks.get(self.dtr1)
        if bank is None:
            return None
        v = bank.read(self.dtr0)
        if bank.drift is not None:
            bank.drift(bank)
        self._bump_dtr0()
        return v

    def _write_memory(self, data, reply):
        bank = self.banks.get(self.dtr1)
        if not self.write_enabled or bank is None:
            return None
        r = bank.write(self.dtr0, data)
        self._bump_dtr0()
        return r if reply else None

    # ------------------------------------------------------------------
    def _dt8(self, op, twice):
        if op in DT8_CONFIG and not twice:
            return None
        if op == DT8_SET_TEMP_TC:
            self.temp_tc = (self.dtr1 << 8) | self.dtr0
            self.log.append(("set_temp_tc", self.dtr0, self.dtr1))
        elif op == DT8_ACTIVATE:
            if self.temp_tc != 0xFFFF:
                self.tc = self.temp_tc
            self.temp_tc = 0xFFFF
            self.log.append(("activate",))
        elif op == DT8_STORE_TC_LIMIT:
            if self.dtr2 < 4:
                self.tc_limits[self.dtr2] = (self.dtr1 << 8) | self.dtr0
            self.log.append(("store_limit", self.dtr0, self.dtr1, self.dtr2))
        elif op == DT8_QUERY_COLOUR_VALUE:
            sel = self.dtr0
            val = self.colour_values.get(sel)
            if val is None:
                return None
            self.dtr0 = val & 0xFF
            self.dtr1 = val >> 8
            return val >> 8
        return None
