"""Virtual-time asyncio event loop owned by the harness.

* time() is a variable: timers fire only when the harness advances the clock
* the selector never blocks and never reports I/O: file-descriptor readers registered by the code
  under test are recorded, and the harness invokes them (through call_soon, i.e. inside a loop
  iteration, exactly as the real selector loop would) when it decides that data "arrives"
* step() runs exactly one loop iteration, so the harness owns every point at which something
  external can happen; settle() iterates until the ready queue is empty
"""
import asyncio
import selectors


class _NullSelector(selectors.BaseSelector):
    def __init__(self):
        self._map = {}

    def register(self, fileobj, events, data=None):
        key = selectors.SelectorKey(fileobj, fileobj if isinstance(fileobj, int) else fileobj.fileno(), events, data)
        self._map[fileobj] = key
        return key

    def unregister(self, fileobj):
        return self._map.pop(fileobj)

    def modify(self, fileobj, events, data=None):
        self.unregister(fileobj)
        return self.register(fileobj, events, data)

    def select(self, timeout=None):
        return []

    def get_map(self):
        return self._map

    def close(self):
        self._map.clear()


class VLoop(asyncio.SelectorEventLoop):
    def __init__(self):
        super().__init__(selector=_NullSelector())
        self._vtime = 1000.0
        self.fd_readers = {}
        self.dead_registrations = set()
        self.exceptions = []          # contexts passed to the exception handler (unhandled task errors etc.)
        self.set_exception_handler(self._on_exception)
        self.steps = 0

    # --- clock --------------------------------------------------------------
    def time(self):
        return self._vtime

    def advance(self, dt):
        assert dt >= 0
        self._vtime += dt

    def next_timer(self):
        """Virtual time of the earliest pending (not cancelled) timer, or None."""
        whens = [h._when for h in self._scheduled if not h._cancelled]
        return min(whens) if whens else None

    def advance_to_next_timer(self):
        t = self.next_timer()
        if t is None:
            return False
        if t > self._vtime:
            self._vtime = t
        return True

    # --- fd readers: recorded, never polled ----------------------------------
    def add_reader(self, fd, callback, *args):
        # As the real selector loop: if the descriptor number is still in the selector's map (it was closed without
        # remove_reader and the number has been handed out again), only the callback is replaced - the kernel-side
        # registration died with the old descriptor and is NOT renewed (epoll/poll modify with unchanged events).
        if fd not in self.fd_readers:
            self.dead_registrations.discard(fd)
        self.fd_readers[fd] = (callback, args)

    def remove_reader(self, fd):
        self.dead_registrations.discard(fd)
        return self.fd_readers.pop(fd, None) is not None

    def fd_closed(self, fd):
        """The descriptor was closed by the code under test (the kernel forgets its poll registration)."""
        if fd in self.fd_readers:
            self.dead_registrations.add(fd)

    def fire_reader(self, fd):
        """The fd became readable: run its callback in the next loop iteration."""
        if fd in self.dead_registrations:
            return False
        if fd in self.fd_readers:
            cb, args = self.fd_readers[fd]
            self.call_soon(cb, *args)
            return True
        return False

    # --- stepping -------------------------------------------------------------
    def _on_exception(self, loop, context):
        self.exceptions.append(context)

    def has_ready(self):
        return bool(self._ready)

    def step(self):
        """Exactly one iteration of the loop (timers that are due, then the ready queue as it stands)."""
        self.steps += 1
        self.call_soon(self.stop)
        self.run_forever()

    def settle(self, cap=20000):
        """Iterate until nothing is ready (timers that are not yet due do not count)."""
        n = 0
        while True:
            self.step()
            n += 1
            due = any((not h._cancelled) and h._when <= self._vtime for h in self._scheduled)
            if not self._ready and not due:
                return n
            if n > cap:
                raise RuntimeError("event loop does not settle (%d iterations)" % n)

    def shutdown(self):
        """Cancel everything that is left and close the loop (no task may outlive a case)."""
        try:
            tasks = [t for t in asyncio.all_tasks(self) if not t.done()]
            for t in tasks:
                t.cancel()
            for _ in range(50):
                self.step()
                if all(t.done() for t in tasks):
                    break
        finally:
            self.close()
