"""Frame-level specification model of an IEC 62386-103 control device with instances.

The model never imports the library.  It sees forward frames as (bits, integer, sent_twice) and
answers None or an 8-bit integer.  It decodes with its own constants (transcribed from
IEC 62386-103:2014 Table 1/2 (addressing), Table 15 (device status), Table 21 (standard commands),
Table 22 (special commands), 9.6.3/Table 8 (event scheme), 9.6.4 (event filter), 9.7 (input value);
cross-checked against harness/ref_tables.py), so an *encoding* bug in the library shows up as the
unit doing the wrong thing.

24-bit forward frame = address byte | instance byte | opcode byte.

address byte   0AAAAAA1 short address, 10GGGGG1 device group, 1111 1101 not addressed, 1111 1111
               broadcast, 110x xxx1 special commands (0xC1, 0xC5, 0xC7, 0xC9); bit 0 (frame bit 16)
               = 0 marks an event message, which a control device's command decoder ignores.
instance byte  0xFE the device itself; 000nnnnn instance number; 100ggggg instance group;
               110ttttt instance type; 0xFF all instances; everything else (feature addressing,
               reserved) is ignored here.

Implemented (and only this):
* DTR0/DTR1/DTR2 (special 0xC1 0x30/0x31/0x32 <data>; 0xC7 <DTR1> <DTR0>; 0xC9 <DTR2> <DTR1>),
  QUERY CONTENT DTR0/1/2;
* send-twice rule: device configuration commands (opcodes 0x00..0x2F with instance byte 0xFE) and
  instance configuration commands (opcodes 0x60..0x7F) act only when received twice - the bus
  passes the library's cmd.sendtwice, which is exactly what every driver keys on;
* device status byte (Table 15): bit0 inputDeviceError, bit1 quiescentMode, bit2 shortAddress is
  MASK, bit3 applicationActive, bit4 applicationControllerError, bit5 powerCycleSeen, bit6
  resetState; START/STOP QUIESCENT MODE; QUERY NUMBER OF INSTANCES;
* per instance: enabled flag, type 0..31, resolution 1..32 and an input value of `resolution` bits,
  QUERY RESOLUTION, QUERY INPUT VALUE / QUERY INPUT VALUE LATCH (9.7.2: the value is transmitted
  MSB-aligned in N = ceil(resolution/8) bytes; QUERY INPUT VALUE answers the most significant
  byte and latches all N bytes, each QUERY INPUT VALUE LATCH answers the next latched byte; the
  unused low bits of the last byte repeat the value's bit pattern from its MSB - here a
  configurable `filler` so that a test can prove they are discarded);
* event scheme (SET EVENT SCHEME from DTR0, 0..4 valid, anything else ignored; QUERY EVENT SCHEME),
  event filter (SET EVENT FILTER from DTR2:DTR1:DTR0, stored at the instance type's native width
  of 8, 16 or 24 bits - bits beyond the native width do not exist and read 0; QUERY EVENT FILTER
  0-7 / 8-15 / 16-23), QUERY INSTANCE ENABLED, QUERY INSTANCE TYPE, ENABLE/DISABLE INSTANCE.

Not specified by the standard and therefore fixed arbitrarily (no check relies on it): when one
query addresses several instances of the same device, the lowest-numbered one answers.
"""

# address byte of the special commands (Table 22)
SP_C1, SP_DIRECT_WRITE, SP_DTR1_DTR0, SP_DTR2_DTR1 = 0xC1, 0xC5, 0xC7, 0xC9
# instance byte of the 0xC1 special commands that carry data in the opcode byte
SPI_DTR0, SPI_DTR1, SPI_DTR2 = 0x30, 0x31, 0x32

INST_DEVICE, INST_BROADCAST = 0xFE, 0xFF

# device commands (instance byte 0xFE), Table 21
OP_START_QUIESCENT, OP_STOP_QUIESCENT = 0x1D, 0x1E
OP_QUERY_DEVICE_STATUS, OP_QUERY_NUMBER_OF_INSTANCES = 0x30, 0x35
OP_QUERY_DTR0, OP_QUERY_DTR1, OP_QUERY_DTR2 = 0x36, 0x37, 0x38
OP_QUERY_QUIESCENT, OP_QUERY_MISSING_SHORT, OP_QUERY_RESET_STATE = 0x40, 0x33, 0x48

# instance commands, Table 21
OP_ENABLE_INSTANCE, OP_DISABLE_INSTANCE = 0x62, 0x63
OP_SET_EVENT_SCHEME, OP_SET_EVENT_FILTER = 0x67, 0x68
OP_QUERY_INSTANCE_TYPE, OP_QUERY_RESOLUTION, OP_QUERY_INSTANCE_ENABLED = 0x80, 0x81, 0x86
OP_QUERY_EVENT_SCHEME, OP_QUERY_INPUT_VALUE, OP_QUERY_INPUT_VALUE_LATCH = 0x8B, 0x8C, 0x8D
OP_QUERY_FILTER_0_7, OP_QUERY_FILTER_8_15, OP_QUERY_FILTER_16_23 = 0x90, 0x91, 0x92

# status bits, Table 15
ST_INPUT_DEVICE_ERROR, ST_QUIESCENT, ST_SHORT_IS_MASK, ST_APP_ACTIVE = 0x01, 0x02, 0x04, 0x08
ST_APP_ERROR, ST_POWER_CYCLE_SEEN, ST_RESET_STATE = 0x10, 0x20, 0x40

YES = 0xFF


def input_value_bytes(value, resolution, filler="repeat"):
    """The N = ceil(resolution/8) bytes in which a `resolution`-bit value is read out, most
    significant first (103 9.7.2).  filler = "repeat": the unused low bits of the last byte repeat
    the value's bit pattern starting again at its MSB (what the standard prescribes); an integer:
    its low bits are used instead (not conforming - used to show that a reader discards them)."""
    if not 1 <= resolution <= 32:
        raise ValueError("resolution %r" % (resolution,))
    if not 0 <= value < (1 << resolution):
        raise ValueError("value %r does not fit %d bits" % (value, resolution))
    n = (resolution + 7) // 8
    pad = 8 * n - resolution
    if filler == "repeat":
        s = format(value, "0%db" % resolution)
        s = (s * (8 * n // resolution + 1))[:8 * n]
        aligned = int(s, 2)
    else:
        aligned = (value << pad) | (int(filler) & ((1 << pad) - 1))
    return [(aligned >> (8 * (n - 1 - i))) & 0xFF for i in range(n)]


class InstanceModel:
    def __init__(self, type=0, enabled=True, resolution=8, value=0, filler="repeat", scheme=0,
                 filter=0, filter_width=8, filter_mask=None, groups=(), refuse_schemes=(),
                 next_values=(), filter_force=0, ignore_set_filter=False):
        if filter_width not in (8, 16, 24):
            raise ValueError("filter_width %r" % (filter_width,))
        self.type = type
        self.enabled = bool(enabled)
        self.resolution = resolution
        self.value = value
        self.filler = filler
        self.scheme = scheme
        self.filter_width = filter_width
        self.filter = filter & ((1 << filter_width) - 1)
        self.groups = set(groups)                 # instance groups this instance belongs to
        # behaviour switches
        self.filter_mask = filter_mask            # None or the set of filter bits the unit implements
        self.filter_force = filter_force & ((1 << filter_width) - 1)   # events the unit keeps enabled whatever is written
        self.ignore_set_filter = ignore_set_filter  # the unit does not take a new filter over (keeps reporting the old one)
        self.refuse_schemes = set(refuse_schemes)  # schemes this unit does not take over
        self.next_values = list(next_values)      # the live input value moves on after each latch
        # read-out state
        self.latched = []
        self.latch_value = None                   # the value that was live when it was last latched
        # observations
        self.set_filter_count = 0
        self.set_scheme_count = 0

    # ------------------------------------------------------------------
    def command(self, dev, op, twice):
        """Execute opcode `op` on this instance; return None or the 8-bit answer."""
        if 0x60 <= op <= 0x7F and not twice:
            return None                            # configuration commands must be received twice
        if op == OP_ENABLE_INSTANCE:
            self.enabled = True
        elif op == OP_DISABLE_INSTANCE:
            self.enabled = False
        elif op == OP_SET_EVENT_SCHEME:
            self.set_scheme_count += 1
            if dev.dtr0 <= 4 and dev.dtr0 not in self.refuse_schemes:
                self.scheme = dev.dtr0
        elif op == OP_SET_EVENT_FILTER:
            self.set_filter_count += 1
            f = (dev.dtr2 << 16) | (dev.dtr1 << 8) | dev.dtr0
            f &= (1 << self.filter_width) - 1
            if self.filter_mask is not None:
                f &= self.filter_mask
            f |= self.filter_force
            if not self.ignore_set_filter:
                self.filter = f
        elif op == OP_QUERY_INSTANCE_TYPE:
            return self.type
        elif op == OP_QUERY_RESOLUTION:
            return self.resolution
        elif op == OP_QUERY_INSTANCE_ENABLED:
            return YES if self.enabled else None
        elif op == OP_QUERY_EVENT_SCHEME:
            return self.scheme
        elif op == OP_QUERY_INPUT_VALUE:
            b = input_value_bytes(self.value, self.resolution, self.filler)
            self.latch_value = self.value
            self.latched = b[1:]
            if self.next_values:
                self.value = self.next_values.pop(0)
            return b[0]
        elif op == OP_QUERY_INPUT_VALUE_LATCH:
            if self.latched:
                return self.latched.pop(0)
            return None
        elif op == OP_QUERY_FILTER_0_7:
            return self.filter & 0xFF
        elif op == OP_QUERY_FILTER_8_15:
            return (self.filter >> 8) & 0xFF
        elif op == OP_QUERY_FILTER_16_23:
            return (self.filter >> 16) & 0xFF
        return None


class DeviceModel:
    def __init__(self, short=None, groups=(), instances=(), name="dev", input_device_error=False,
                 app_active=False, app_error=False, power_cycle_seen=False, reset_state=False,
                 force_status=0, dtr=(0, 0, 0)):
        self.name = name
        self.short = short                        # None = MASK (no short address)
        self.groups = set(groups)                 # device groups 0..31
        self.instances = list(instances)          # index = instance number, at most 32
        if len(self.instances) > 32:
            raise ValueError("a control device has at most 32 instances")
        self.dtr0, self.dtr1, self.dtr2 = dtr
        self.quiescent = False
        self.input_device_error = input_device_error
        self.app_active = app_active
        self.app_error = app_error
        self.power_cycle_seen = power_cycle_seen
        self.reset_state = reset_state
        self.force_status = force_status          # bits OR-ed into the status answer (misbehaving unit)
        # observations
        self.queries_while_not_quiescent = 0
        self.queries_while_quiescent = 0
        self.log = []

    # ------------------------------------------------------------------
    def status(self):
        s = self.force_status & 0x7F
        if self.input_device_error:
            s |= ST_INPUT_DEVICE_ERROR
        if self.quiescent:
            s |= ST_QUIESCENT
        if self.short is None:
            s |= ST_SHORT_IS_MASK
        if self.app_active:
            s |= ST_APP_ACTIVE
        if self.app_error:
            s |= ST_APP_ERROR
        if self.power_cycle_seen:
            s |= ST_POWER_CYCLE_SEEN
        if self.reset_state:
            s |= ST_RESET_STATE
        return s

    def _addressed(self, ab):
        if ab == 0xFF:
            return True
        if ab == 0xFD:
            return self.short is None
        if not ab & 0x80:
            return self.short == (ab >> 1)
        if ab & 0xC0 == 0x80:
            return ((ab >> 1) & 0x1F) in self.groups
        return False

    def _select(self, ib):
        """Instances addressed by instance byte ib (None: not an instance addressing form)."""
        if ib == INST_BROADCAST:
            return list(self.instances)
        top, n = ib & 0xE0, ib & 0x1F
        if top == 0x00:
            return [self.instances[n]] if n < len(self.instances) else []
        if top == 0x80:
            return [i for i in self.instances if n in i.groups]
        if top == 0xC0:
            return [i for i in self.instances if i.type == n]
        return None

    # ------------------------------------------------------------------
    def receive(self, bits, v, twice):
        """Process one forward frame; return None or the 8-bit answer."""
        if bits != 24:
            return None                            # control devices only decode 24-bit frames
        ab, ib, op = (v >> 16) & 0xFF, (v >> 8) & 0xFF, v & 0xFF
        if not ab & 1:
            return None                            # event message, not a command
        if ab & 0xE0 == 0xC0:
            return self._special(ab, ib, op)
        if not self._addressed(ab):
            return None
        if ib == INST_DEVICE:
            return self._device(op, twice)
        sel = self._select(ib)
        if not sel:
            return None
        if op >= 0x80:
            self._note_query()
        answers = [a for a in (i.command(self, op, twice) for i in sel) if a is not None]
        return answers[0] if answers else None

    def _note_query(self):
        if self.quiescent:
            self.queries_while_quiescent += 1
        else:
            self.queries_while_not_quiescent += 1

    def _special(self, ab, ib, op):
        if ab == SP_C1:
            if ib == SPI_DTR0:
                self.dtr0 = op
            elif ib == SPI_DTR1:
                self.dtr1 = op
            elif ib == SPI_DTR2:
                self.dtr2 = op
        elif ab == SP_DTR1_DTR0:
            self.dtr1, self.dtr0 = ib, op
        elif ab == SP_DTR2_DTR1:
            self.dtr2, self.dtr1 = ib, op
        return None

    def _device(self, op, twice):
        if op <= 0x2F and not twice:
            return None                            # configuration commands must be received twice
        if op == OP_START_QUIESCENT:
            self.quiescent = True
            self.log.append("start-quiescent")
        elif op == OP_STOP_QUIESCENT:
            self.quiescent = False
            self.log.append("stop-quiescent")
        elif op >= 0x30:
            self._note_query()
            if op == OP_QUERY_DEVICE_STATUS:
                return self.status()
            if op == OP_QUERY_NUMBER_OF_INSTANCES:
                return len(self.instances)
            if op == OP_QUERY_DTR0:
                return self.dtr0
            if op == OP_QUERY_DTR1:
                return self.dtr1
            if op == OP_QUERY_DTR2:
                return self.dtr2
            if op == OP_QUERY_QUIESCENT:
                return YES if self.quiescent else None
            if op == OP_QUERY_MISSING_SHORT:
                return YES if self.short is None else None
            if op == OP_QUERY_RESET_STATE:
                return YES if self.reset_state else None
        return None
