"""Hypothesis glue: seeded, database-free searches that collect one minimal
case per root-cause signature ("collect then shrink") instead of stopping at
the first failure."""
import time

import hypothesis
from hypothesis import HealthCheck, Phase, given, settings
from hypothesis.stateful import run_state_machine_as_test

from harness.runner import Result, exc_sig, library_frame


class _Found(Exception):
    pass


def make_settings(n, shrink=True, steps=None):
    phases = [Phase.explicit, Phase.generate, Phase.target]
    if shrink:
        phases.append(Phase.shrink)
    kw = dict(max_examples=n, database=None, deadline=None, derandomize=False,
              report_multiple_bugs=False, phases=phases, print_blob=False,
              suppress_health_check=[HealthCheck.too_slow, HealthCheck.data_too_large,
                                     HealthCheck.filter_too_much,
                                     HealthCheck.large_base_example])
    if steps is not None:
        kw["stateful_step_count"] = steps
    return settings(**kw)


def search(strategy, run_case, res, n, seed, prop, nontrivial=None, classify=None,
           shrink=True, max_rounds=6, to_json=None, reducer=None, extra_rounds_budget_s=30.0):
    """Drive run_case(case) -> [(sig, msg)] with cases from `strategy`.

    Every distinct signature found is recorded in res.violations with the
    (shrunk) case that produced it; signatures already found are excluded and
    counted in later rounds so the search continues behind them.
    """
    found = set()
    to_json = to_json or (lambda c: c)
    t_start = time.monotonic()
    for rnd in range(max_rounds):
        # rounds after the first only look for *further* root causes behind one already found;
        # they are cut short when the wall-clock budget is spent (this limits how many signatures
        # are reported for a broken tree, never the verdict)
        if rnd > 0 and time.monotonic() - t_start > extra_rounds_budget_s:
            break
        last = {}
        first_round = rnd == 0

        @hypothesis.seed(seed + 7919 * rnd)
        @make_settings(n, shrink=shrink)
        @given(strategy)
        def t(case):
            if not first_round and time.monotonic() - t_start > extra_rounds_budget_s:
                res.label("skipped-after-time-budget")
                return
            res.count()
            try:
                vs = run_case(case) or []
            except Exception as e:  # noqa
                if library_frame(e.__traceback__) is None:
                    raise
                vs = [(exc_sig(prop + ":uncaught", e), "uncaught %r" % (e,))]
            jc = to_json(case)
            if first_round:
                if classify is not None:
                    for lab in classify(case):
                        res.label(lab)
                if nontrivial is None or nontrivial(case):
                    res.nontrivial(jc)
                    res.sample(jc)
            fresh = [v for v in vs if v[0] not in found]
            for v in vs:
                if v[0] in found:
                    res.excluded[v[0]] += 1
            if fresh:
                last["case"] = jc
                last["v"] = fresh[0]
                raise _Found(fresh[0][0])

        try:
            t()
        except _Found:
            sig, msg = last["v"]
            case = last["case"]
            if reducer is not None:
                case = greedy_reduce(case, sig, run_case, reducer)
            res.violation(sig, case, msg)
            found.add(sig)
            continue
        except hypothesis.errors.Flaky as e:  # nondeterministic: report what we saw
            if "v" in last:
                sig, msg = last["v"]
                res.violation(sig, last["case"], "(flaky) " + str(msg))
                found.add(sig)
                continue
            raise
        break
    return found


def greedy_reduce(case, sig, run_case, candidates, budget=120, budget_s=15.0):
    """Cheap minimiser for expensive cases (used instead of Hypothesis' shrinker when that would
    blow the time budget): repeatedly try the smaller cases proposed by candidates(case) and keep
    the first that still produces signature `sig`.  Bounded by evaluations and wall clock; the
    bound only limits how small the reported case gets."""
    import copy
    spent = 0
    improved = True
    t0 = time.monotonic()
    while improved and spent < budget and time.monotonic() - t0 < budget_s:
        improved = False
        for cand in candidates(copy.deepcopy(case)):
            spent += 1
            try:
                vs = run_case(cand) or []
            except Exception:  # noqa
                vs = []
            if any(v[0] == sig for v in vs):
                case = cand
                improved = True
                break
            if spent >= budget or time.monotonic() - t0 > budget_s:
                break
    return case


def run_machine(machine_cls, n, seed, steps, shrink=True):
    """Run a RuleBasedStateMachine; returns None or the exception raised by the
    final (minimal) failing run."""
    m = hypothesis.seed(seed)(machine_cls)
    try:
        run_state_machine_as_test(m, settings=make_settings(n, shrink=shrink, steps=steps))
    except Exception as e:  # noqa
        return e
    return None
