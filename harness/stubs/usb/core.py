class USBError(IOError):
    def __init__(self, strerror="", error_code=None, errno=None):
        IOError.__init__(self, errno, strerror)
        self.backend_error_code = error_code


def find(find_all=False, **kw):
    """No USB devices exist in the sandbox."""
    return iter(()) if find_all else None
