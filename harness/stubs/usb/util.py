ENDPOINT_IN = 0x80
ENDPOINT_OUT = 0x00


def endpoint_direction(address):
    return address & 0x80


def find_descriptor(desc, find_all=False, custom_match=None, **kw):
    return None


def claim_interface(device, interface):
    raise NotImplementedError("usb stub")


def dispose_resources(device):
    pass
