"""Stub of pyusb (absent from the sandbox): enough for `import usb` in dali.driver.base."""
from . import core, util  # noqa
