"""Stand-in for pymodbus 2.x `pymodbus.client.sync` (pymodbus 3.x, which is installed, dropped it).
Clients record register writes and answer reads from a dictionary."""


class _Resp:
    def __init__(self, registers):
        self.registers = registers


class _Client:
    def __init__(self, *a, **kw):
        self.args = (a, kw)
        self.writes = []          # (register, values)
        self.regs = {}            # register -> value for reads
        self.on_write = None

    def write_register(self, reg, value, unit=None, **kw):
        self.writes.append((reg, (value,)))
        if self.on_write:
            self.on_write(self, reg, (value,))

    def write_registers(self, reg, values, unit=None, **kw):
        self.writes.append((reg, tuple(values)))
        if self.on_write:
            self.on_write(self, reg, tuple(values))

    def read_holding_registers(self, reg, cnt, unit=None, **kw):
        return _Resp([self.regs.get(reg + i, 0) for i in range(cnt)])

    def write_coil(self, reg, val, unit=None, **kw):
        self.writes.append(("coil", reg, val))

    def close(self):
        pass


class ModbusSerialClient(_Client):
    pass


class ModbusTcpClient(_Client):
    pass
