"""Stub of hidapi's `hid` module (absent from the sandbox).  `device()` records writes and plays back
queued reads; `open()` succeeds so that dali.driver.hasseb drivers can be instantiated."""


class device:
    def __init__(self):
        self.written = []
        self.to_read = []
        self.opened = None

    def open(self, vendor_id=0, product_id=0, serial_number=None):
        self.opened = (vendor_id, product_id)

    def open_path(self, path):
        self.opened = path

    def write(self, data):
        self.written.append(bytes(data))
        return len(data)

    def read(self, n, timeout_ms=0):
        if self.to_read:
            return list(self.to_read.pop(0))[:n]
        return []

    def close(self):
        self.opened = None


def enumerate(vendor_id=0, product_id=0):
    return []
