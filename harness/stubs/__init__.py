"""Import stubs so that the legacy drivers (dali.driver.base / tridonic / hasseb / unipi / atxled)
can be imported in an environment without pyusb, hidapi and the pymodbus 2.x `client.sync` module.

    from harness import stubs; stubs.install()

* this directory is APPENDED to sys.path, so a really installed `usb` or `hid` always wins;
* `pymodbus.client.sync` (pymodbus 2.x API; pymodbus 3.x is installed) is registered in sys.modules
  only if importing it fails; the real `pymodbus` package is never shadowed.
The stubs never talk to hardware: every entry point either records or raises.
"""
import importlib
import os
import sys

HERE = os.path.dirname(os.path.abspath(__file__))


def install():
    if HERE not in sys.path:
        sys.path.append(HERE)
    try:
        importlib.import_module("pymodbus.client.sync")
    except Exception:  # noqa: absent in pymodbus 3.x
        shim = importlib.import_module("pymodbus_client_sync_stub")
        sys.modules["pymodbus.client.sync"] = shim
        try:
            import pymodbus.client as pc
            pc.sync = shim
        except Exception:  # noqa: no pymodbus at all
            import types
            pm = sys.modules.setdefault("pymodbus", types.ModuleType("pymodbus"))
            pc = sys.modules.setdefault("pymodbus.client", types.ModuleType("pymodbus.client"))
            pm.client = pc
            pc.sync = shim
