#!/usr/bin/env python3
"""Prepare scratch worktrees for a round of independent seeders.

  tools/seed_setup.py <round> <seeds-per-property> [ids...]

For every property id: a detached git worktree of /repo at /tmp/seed<round>-<id> holding PROPERTY.txt (the property's
statement and quantifier from properties.jsonl plus one-sentence summaries of the changes earlier seeders used) and
nothing else from /verif.  One instruction file per pair of properties is written to /dev/shm/seed<round>_<id>.txt.
"""
import json
import os
import subprocess
import sys

VERIF = os.path.dirname(os.path.dirname(os.path.abspath(__file__)))
rnd, per = sys.argv[1], int(sys.argv[2])
ids = sys.argv[3:] or ["C%02d" % i for i in range(1, 21)]
props = {json.loads(l)["id"]: json.loads(l) for l in open(os.path.join(VERIF, "properties.jsonl"))}
letters = "abcdef"[:per]

TEMPLATE = open(os.path.join(VERIF, "tools", "seeder_brief.txt")).read()

for pid in ids:
    wt = "/tmp/seed%s-%s" % (rnd, pid)
    subprocess.run(["git", "-C", "/repo", "worktree", "remove", "--force", wt], capture_output=True)
    subprocess.check_call(["git", "-C", "/repo", "worktree", "add", "-q", "--detach", wt, "HEAD"])
    p = props[pid]
    earlier = []
    for name in sorted(os.listdir(os.path.join(VERIF, "seeded"))):
        if name.startswith(pid):
            for _ in range(5):
                try:
                    m = json.load(open(os.path.join(VERIF, "seeded", name, "meta.json")))
                    break
                except ValueError:      # being rewritten by a recheck at this moment
                    import time
                    time.sleep(0.5)
            if m.get("summary"):
                earlier.append("- " + m["summary"].strip())
    with open(os.path.join(wt, "PROPERTY.txt"), "w") as f:
        f.write("Property %s: %s\n\nStatement:\n%s\n\nQuantified over: %s\n\n" % (pid, p["title"], p["statement"], p["quantifier"]["text"]))
        f.write("Already used by earlier seeders (do NOT repeat them or close variants; attack DIFFERENT clauses, code paths "
                "or mechanisms of the property):\n" + "\n".join(earlier) + "\n")
for k in range(0, len(ids), 2):
    pair = ids[k:k + 2]
    dirs = ["/tmp/seed%s-%s" % (rnd, x) for x in pair]
    txt = TEMPLATE.replace("@DIRS@", " and ".join(dirs)).replace("@N@", {1: "ONE", 2: "TWO", 3: "THREE"}[per]) \
        .replace("@SUBDIRS@", ", ".join("DIR/SEED/" + x for x in letters)).replace("@TOTAL@", str(per * len(pair)))
    open("/dev/shm/seed%s_%s.txt" % (rnd, pair[0]), "w").write(txt)
    print("/dev/shm/seed%s_%s.txt" % (rnd, pair[0]), dirs)
