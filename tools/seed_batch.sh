#!/bin/sh
# tools/seed_batch.sh <round-tag> <parallelism> <id>...   verifies /tmp/seed<round>-<id>/SEED/{a,b,c} (or SEED itself)
tag=$1; par=$2; shift 2
for id in "$@"; do
  base=/tmp/seed$tag-$id/SEED
  if [ -d $base/a ]; then
    for x in a b c; do [ -f $base/$x/meta.json ] && echo "$id $base/$x $id-r$tag$x"; done
  elif [ -f $base/meta.json ]; then echo "$id $base $id-r$tag"; fi
done | xargs -P $par -L 1 sh -c '/verif/tools/seed_verify.py $0 --src $1 --name $2 > /dev/shm/sv-$2.log 2>&1; head -5 /dev/shm/sv-$2.log | cut -c1-240'
