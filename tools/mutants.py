#!/venv/bin/python
"""Systematic sensitivity sweep: generated first-order mutants of the library, each run against the checks that
are anchored in the mutated file (scratch copy under /dev/shm; /repo is never touched).

  tools/mutants.py gen [--per-file N] [--seed S] [--files a,b]  -> /dev/shm/mutants/plan.jsonl
  tools/mutants.py run [-j N] [--only FILE-SUBSTRING]       -> /dev/shm/mutants/results.jsonl (resumable)
  tools/mutants.py tests [-j N]                             -> for survivors only: does the repo's test suite kill it?
  tools/mutants.py report                                   -> summary + survivors

Mutation operators (located with ast, applied textually at the node's exact source span):
  comparison flips (== != < <= > >= in/not in, is/is not), and<->or, dropped `not`, integer constant +-1,
  True<->False, + <-> -, << <-> >>, & <-> |, statement deletion (assignment, augmented assignment, call or yield
  statement, return value, continue/break/raise replaced by pass where the block allows it).
Logging calls, docstrings, __repr__/__str__ bodies and type annotations are skipped (nothing a property speaks about).
"""
import ast
import json
import os
import random
import shutil
import subprocess
import sys
import tempfile
import time
from concurrent.futures import ThreadPoolExecutor

VERIF = os.path.dirname(os.path.dirname(os.path.abspath(__file__)))
OUT = "/dev/shm/mutants"

FILE_CHECKS = {
    "dali/frame.py": ["C05", "C01"],
    "dali/address.py": ["C04", "C02", "C01"],
    "dali/command.py": ["C01", "C06", "C03", "C02"],
    "dali/gear/general.py": ["C02", "C03", "C01", "C06"],
    "dali/gear/led.py": ["C02", "C03", "C06"],
    "dali/gear/colour.py": ["C02", "C03", "C06", "C14"],
    "dali/gear/emergency.py": ["C02", "C03", "C06"],
    "dali/gear/converter.py": ["C02", "C03", "C06"],
    "dali/gear/incandescent.py": ["C02", "C03", "C06"],
    "dali/gear/sequences.py": ["C14"],
    "dali/device/general.py": ["C02", "C03", "C12", "C01", "C13"],
    "dali/device/pushbutton.py": ["C02", "C12", "C03", "C13"],
    "dali/device/occupancy.py": ["C02", "C12", "C03", "C13"],
    "dali/device/light.py": ["C02", "C12", "C03", "C13"],
    "dali/device/helpers.py": ["C12", "C13"],
    "dali/device/sequences.py": ["C13"],
    "dali/sequences.py": ["C07", "C08"],
    "dali/memory/location.py": ["C09", "C10", "C11"],
    "dali/memory/info.py": ["C11", "C09"],
    "dali/memory/oem.py": ["C11", "C10"],
    "dali/memory/diagnostics.py": ["C11"],
    "dali/memory/energy.py": ["C11"],
    "dali/memory/maintenance.py": ["C11"],
    "dali/driver/hid.py": ["C15", "C16", "C17", "C20", "C18"],
    "dali/driver/serial.py": ["C15", "C16", "C17", "C19", "C18", "C20"],
    "dali/driver/daliserver.py": ["C16", "C18"],
    "dali/driver/atxled.py": ["C16", "C18"],
    "dali/driver/tridonic.py": ["C18"],
    "dali/driver/hasseb.py": ["C18"],
    "dali/driver/unipi.py": ["C18"],
}

CMP = {ast.Eq: "!=", ast.NotEq: "==", ast.Lt: "<=", ast.LtE: "<", ast.Gt: ">=", ast.GtE: ">",
       ast.In: "not in", ast.NotIn: "in", ast.Is: "is not", ast.IsNot: "is"}
BIN = {ast.Add: "-", ast.Sub: "+", ast.LShift: ">>", ast.RShift: "<<", ast.BitAnd: "|", ast.BitOr: "&"}
SKIP_FUNCS = {"__repr__", "__str__"}


def offsets(src):
    lines = src.splitlines(keepends=True)
    starts = [0]
    for l in lines:
        starts.append(starts[-1] + len(l.encode()))
    return starts


def span(node, starts):
    return starts[node.lineno - 1] + node.col_offset, starts[node.end_lineno - 1] + node.end_col_offset


def is_logging(node):
    if isinstance(node, ast.Expr) and isinstance(node.value, ast.Call):
        f = node.value.func
        txt = ast.unparse(f)
        return any(x in txt for x in ("_log.", "_LOG.", "logging.", "log.", "logger.", "print", "warnings."))
    return False


def mutants_of(rel, src):
    tree = ast.parse(src)
    b = src.encode()
    starts = offsets(src)
    out = []

    def add(a, z, new, op, line):
        old = b[a:z].decode()
        if old != new:
            out.append({"file": rel, "a": a, "z": z, "old": old, "new": new, "op": op, "line": line})

    class V(ast.NodeVisitor):
        def __init__(self):
            self.skip = 0

        def visit_FunctionDef(self, node):
            if node.name in SKIP_FUNCS:
                return
            for d in node.body:
                self.visit(d)
        visit_AsyncFunctionDef = visit_FunctionDef

        def generic_visit(self, node):
            # statement deletion
            for field in ("body", "orelse", "finalbody"):
                stmts = getattr(node, field, None)
                if isinstance(stmts, list):
                    for st_ in stmts:
                        if not isinstance(st_, ast.stmt):
                            continue
                        if isinstance(st_, ast.Expr) and isinstance(st_.value, ast.Constant) and isinstance(st_.value.value, str):
                            continue   # docstring
                        if is_logging(st_):
                            continue
                        a, z = span(st_, starts)
                        if isinstance(st_, (ast.Assign, ast.AugAssign)) and not isinstance(node, ast.ClassDef) and not isinstance(node, ast.Module):
                            add(a, z, "pass", "delete-assignment", st_.lineno)
                        elif isinstance(st_, ast.Expr) and isinstance(st_.value, (ast.Call, ast.Yield, ast.YieldFrom, ast.Await)):
                            add(a, z, "pass", "delete-statement", st_.lineno)
                        elif isinstance(st_, ast.Return) and st_.value is not None and not (isinstance(st_.value, ast.Constant) and st_.value.value is None):
                            va, vz = span(st_.value, starts)
                            add(va, vz, "None", "return-none", st_.lineno)
                        elif isinstance(st_, (ast.Continue, ast.Break)):
                            add(a, z, "pass", "delete-" + type(st_).__name__.lower(), st_.lineno)
                        elif isinstance(st_, ast.Raise):
                            add(a, z, "pass", "delete-raise", st_.lineno)
            super().generic_visit(node)

        def visit_Compare(self, node):
            if len(node.ops) == 1 and type(node.ops[0]) in CMP:
                la, lz = span(node.left, starts)
                ra, rz = span(node.comparators[0], starts)
                mid = b[lz:ra].decode()
                a, z = span(node, starts)
                new = b[la:lz].decode() + " " + CMP[type(node.ops[0])] + " " + b[ra:rz].decode()
                if mid.strip("() \n\\") in ("==", "!=", "<", "<=", ">", ">=", "in", "not in", "is", "is not"):
                    add(la, rz, new, "compare-flip", node.lineno)
            self.generic_visit(node)

        def visit_BoolOp(self, node):
            if len(node.values) == 2:
                la, lz = span(node.values[0], starts)
                ra, rz = span(node.values[1], starts)
                mid = b[lz:ra].decode()
                word = "and" if isinstance(node.op, ast.And) else "or"
                if mid.strip("() \n\\") == word:
                    add(lz, ra, mid.replace(word, "or" if word == "and" else "and"), "and-or", node.lineno)
            self.generic_visit(node)

        def visit_UnaryOp(self, node):
            if isinstance(node.op, ast.Not):
                a, z = span(node, starts)
                oa, oz = span(node.operand, starts)
                add(a, z, "(" + b[oa:oz].decode() + ")", "drop-not", node.lineno)
            self.generic_visit(node)

        def visit_BinOp(self, node):
            if type(node.op) in BIN:
                la, lz = span(node.left, starts)
                ra, rz = span(node.right, starts)
                mid = b[lz:ra].decode()
                sym = {ast.Add: "+", ast.Sub: "-", ast.LShift: "<<", ast.RShift: ">>", ast.BitAnd: "&", ast.BitOr: "|"}[type(node.op)]
                if mid.strip("() \n\\") == sym and not (isinstance(node.left, ast.Constant) and isinstance(node.left.value, str)):
                    add(lz, ra, mid.replace(sym, BIN[type(node.op)]), "arith-flip", node.lineno)
            self.generic_visit(node)

        def visit_Constant(self, node):
            a, z = span(node, starts)
            if isinstance(node.value, bool):
                add(a, z, "False" if node.value else "True", "bool-flip", node.lineno)
            elif isinstance(node.value, int) and not isinstance(node.value, bool):
                txt = b[a:z].decode()
                add(a, z, "(%s + 1)" % txt, "const+1", node.lineno)
                if node.value > 0:
                    add(a, z, "(%s - 1)" % txt, "const-1", node.lineno)

        def visit_AnnAssign(self, node):
            if node.value is not None:
                self.visit(node.value)

        def visit_arguments(self, node):
            for d in list(node.defaults) + [x for x in node.kw_defaults if x is not None]:
                self.visit(d)
    V().visit(tree)
    # a mutant must still compile
    good = []
    for m in out:
        new_src = (b[:m["a"]] + m["new"].encode() + b[m["z"]:]).decode()
        try:
            compile(new_src, rel, "exec")
        except SyntaxError:
            continue
        good.append(m)
    return good


def gen(per_file, seed, files=None):
    os.makedirs(OUT, exist_ok=True)
    rng = random.Random(seed)
    plan = []
    for rel in FILE_CHECKS:
        if files and not any(x in rel for x in files):
            continue
        src = open(os.path.join("/repo", rel)).read()
        ms = mutants_of(rel, src)
        rng.shuffle(ms)
        # spread over operators: round-robin by operator
        byop = {}
        for m in ms:
            byop.setdefault(m["op"], []).append(m)
        pick = []
        while len(pick) < per_file and any(byop.values()):
            for op in sorted(byop):
                if byop[op] and len(pick) < per_file:
                    pick.append(byop[op].pop())
        for m in pick:
            m["id"] = "%s:%d:%s:%d" % (rel, m["line"], m["op"], m["a"])
            plan.append(m)
        print("%-32s %5d candidates, %3d planned" % (rel, len(ms), len(pick)))
    with open(os.path.join(OUT, "plan.jsonl"), "w") as f:
        for m in plan:
            f.write(json.dumps(m) + "\n")
    print(len(plan), "mutants planned")


def make_scratch(m):
    scratch = tempfile.mkdtemp(prefix="vmutant-", dir="/dev/shm")
    shutil.copytree("/repo/dali", os.path.join(scratch, "dali"), ignore=shutil.ignore_patterns("__pycache__"))
    p = os.path.join(scratch, m["file"])
    b = open(p, "rb").read()
    assert b[m["a"]:m["z"]].decode() == m["old"], "source moved"
    open(p, "wb").write(b[:m["a"]] + m["new"].encode() + b[m["z"]:])
    return scratch


def run_one(m):
    scratch = make_scratch(m)
    res = {"id": m["id"], "file": m["file"], "line": m["line"], "op": m["op"], "old": m["old"][:80], "new": m["new"][:80], "checks": {}}
    t0 = time.time()
    try:
        for c in FILE_CHECKS[m["file"]]:
            env = dict(os.environ, VERIF_REPO=scratch, VERIF_SEED="0")
            try:
                r = subprocess.run([os.path.join(VERIF, "check"), c], env=env, capture_output=True, text=True, timeout=900)
                rc = r.returncode
                sig = [l.strip()[:160] for l in r.stdout.splitlines() if l.startswith("  sig=")][:1]
            except subprocess.TimeoutExpired:
                rc, sig = 3, ["timeout"]
            res["checks"][c] = {"rc": rc, "sig": sig}
            if rc == 1:
                break            # killed: no need to run the remaining checks
    finally:
        shutil.rmtree(scratch, ignore_errors=True)
    res["killed"] = any(v["rc"] == 1 for v in res["checks"].values())
    res["wall"] = round(time.time() - t0, 1)
    return res


def run(par, only):
    plan = [json.loads(l) for l in open(os.path.join(OUT, "plan.jsonl"))]
    rp = os.path.join(OUT, "results.jsonl")
    done = set()
    if os.path.exists(rp):
        done = {json.loads(l)["id"] for l in open(rp)}
    todo = [m for m in plan if m["id"] not in done and (only is None or only in m["file"])]
    print(len(todo), "to run")
    with ThreadPoolExecutor(par) as ex, open(rp, "a") as f:
        for res in ex.map(run_one, todo):
            f.write(json.dumps(res) + "\n")
            f.flush()
            print("%-7s %-60s %5.0fs %s" % ("killed" if res["killed"] else "SURVIVED", res["id"][:60], res["wall"],
                                            {k: v["rc"] for k, v in res["checks"].items()}), flush=True)
    shutil.rmtree(os.path.join(VERIF, "replays", "found"), ignore_errors=True)


def tests_one(m):
    scratch = make_scratch(m)
    try:
        shutil.copytree("/repo/dali/tests", os.path.join(scratch, "dali", "tests"), dirs_exist_ok=True)
        r = subprocess.run(["/venv/bin/python", "-m", "pytest", "-q", "-x", "-p", "no:cacheprovider", "dali/tests"], cwd=scratch,
                           capture_output=True, text=True, timeout=600, env=dict(os.environ, PYTHONPATH=scratch))
        tail = r.stdout.strip().splitlines()[-1] if r.stdout.strip() else ""
        return m["id"], "110 passed" in tail, tail[:100]
    except subprocess.TimeoutExpired:
        return m["id"], False, "timeout"
    finally:
        shutil.rmtree(scratch, ignore_errors=True)


def tests(par):
    plan = {json.loads(l)["id"]: json.loads(l) for l in open(os.path.join(OUT, "plan.jsonl"))}
    res = [json.loads(l) for l in open(os.path.join(OUT, "results.jsonl"))]
    tp = os.path.join(OUT, "tests.jsonl")
    done = {json.loads(l)["id"] for l in open(tp)} if os.path.exists(tp) else set()
    todo = [plan[r["id"]] for r in res if not r["killed"] and r["id"] not in done]
    print(len(todo), "survivors to run the test suite on")
    with ThreadPoolExecutor(par) as ex, open(tp, "a") as f:
        for mid, passed, tail in ex.map(tests_one, todo):
            f.write(json.dumps({"id": mid, "tests_pass": passed, "tail": tail}) + "\n")
            f.flush()
            print("%-14s %s  %s" % ("tests-pass" if passed else "tests-kill", mid, tail), flush=True)


def report():
    res = [json.loads(l) for l in open(os.path.join(OUT, "results.jsonl"))]
    tp = os.path.join(OUT, "tests.jsonl")
    tst = {json.loads(l)["id"]: json.loads(l) for l in open(tp)} if os.path.exists(tp) else {}
    byfile = {}
    for r in res:
        d = byfile.setdefault(r["file"], [0, 0])
        d[0] += 1
        d[1] += r["killed"]
    for f, (n, k) in sorted(byfile.items()):
        print("%-32s %3d mutants, %3d killed (%d%%)" % (f, n, k, 100 * k // max(n, 1)))
    print("total %d, killed %d" % (len(res), sum(r["killed"] for r in res)))
    print()
    for r in res:
        if not r["killed"]:
            t = tst.get(r["id"])
            print("SURVIVED %-58s %-16s %r -> %r  %s" % (r["id"][:58], "tests-pass" if t and t["tests_pass"] else "tests-kill" if t else "",
                                                          r["old"][:40], r["new"][:40], {k: v["rc"] for k, v in r["checks"].items()}))


if __name__ == "__main__":
    a = sys.argv[1:]
    cmd = a[0]
    opt = {a[i]: a[i + 1] for i in range(1, len(a) - 1, 2)}
    if cmd == "gen":
        gen(int(opt.get("--per-file", 30)), int(opt.get("--seed", 1)), opt["--files"].split(",") if "--files" in opt else None)
    elif cmd == "run":
        run(int(opt.get("-j", 2)), opt.get("--only"))
    elif cmd == "tests":
        tests(int(opt.get("-j", 4)))
    elif cmd == "report":
        report()
