#!/venv/bin/python
"""Sensitivity probe: apply a textual mutation (or a patch) to a scratch copy of
/repo under /dev/shm, run the named checks against the copy, remove the copy.

  tools/mut.py dali/frame.py 'hi + 1 - lo' 'hi - lo' -- C05 C01
  tools/mut.py --patch seeded/x/patch.diff -- C07
  options: --nth K (replace the K-th occurrence, default: must be unique), --tier quick|thorough
Never touches /repo.  Exit status: 0 if every named check reported a violation (mutation caught).
"""
import os
import shutil
import subprocess
import sys
import tempfile

VERIF = os.path.dirname(os.path.dirname(os.path.abspath(__file__)))


def main():
    argv = sys.argv[1:]
    if "--" not in argv:
        sys.exit(__doc__)
    k = argv.index("--")
    spec, checks = argv[:k], argv[k + 1:]
    tier = "quick"
    nth = None
    patch = None
    seed = os.environ.get("VERIF_SEED", "0")
    while spec and spec[0].startswith("--"):
        if spec[0] == "--tier":
            tier = spec[1]; spec = spec[2:]
        elif spec[0] == "--nth":
            nth = int(spec[1]); spec = spec[2:]
        elif spec[0] == "--patch":
            patch = os.path.abspath(spec[1]); spec = spec[2:]
        else:
            sys.exit("bad option " + spec[0])
    scratch = tempfile.mkdtemp(prefix="vmut-", dir="/dev/shm")
    try:
        shutil.copytree("/repo/dali", os.path.join(scratch, "dali"),
                        ignore=shutil.ignore_patterns("__pycache__"))
        if patch:
            subprocess.check_call(["patch", "-p1", "-s", "-i", patch], cwd=scratch)
        else:
            while spec:
                rel, old, new = spec[:3]
                spec = spec[3:]
                p = os.path.join(scratch, rel)
                s = open(p).read()
                c = s.count(old)
                if c == 0:
                    sys.exit("pattern not found in %s: %r" % (rel, old))
                if c > 1 and nth is None:
                    sys.exit("pattern occurs %d times in %s; use --nth" % (c, rel))
                if nth is None:
                    s = s.replace(old, new)
                else:
                    parts = s.split(old)
                    s = old.join(parts[:nth]) + new + old.join(parts[nth:])
                open(p, "w").write(s)
        allcaught = True
        for c in checks:
            env = dict(os.environ, VERIF_REPO=scratch, VERIF_SEED=seed)
            r = subprocess.run([os.path.join(VERIF, "check"), c, "--tier", tier], env=env,
                               capture_output=True, text=True)
            lines = [l for l in r.stdout.splitlines() if l.startswith(("VIOLATION", "  sig=", "KNOWN"))]
            print("%s exit=%d %s" % (c, r.returncode, "CAUGHT" if r.returncode == 1 else "MISSED" if r.returncode == 0 else "HARNESS-ERROR"))
            for l in lines[:8]:
                print("   ", l[:300])
            if r.returncode == 2:
                print(r.stderr[-1500:])
            if r.returncode != 1:
                allcaught = False
        return 0 if allcaught else 1
    finally:
        shutil.rmtree(scratch, ignore_errors=True)


if __name__ == "__main__":
    sys.exit(main())
