#!/bin/sh
# Offline setup: make sure hypothesis is importable from /venv (it normally is).
/venv/bin/python -c "import hypothesis" 2>/dev/null || \
  /venv/bin/pip install --no-index --find-links /opt/veriftools/wheels hypothesis
/venv/bin/python -c "import hypothesis, dali; print('hypothesis', hypothesis.__version__)"
