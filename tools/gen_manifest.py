#!/venv/bin/python
"""Regenerates MANIFEST.json from the table below (one entry per built check)."""
import json
import os

VERIF = os.path.dirname(os.path.dirname(os.path.abspath(__file__)))

ALL = ["C%02d" % i for i in range(1, 21)]

CHECKS = {
    "C05": dict(
        technique="model-based property testing: exhaustive enumeration for widths 1..8 plus Hypothesis operation "
                  "histories against a list-of-bits reference model",
        text="Every slice/bit write (legal and illegal) on every frame of width 1..7 (quick) / 1..8 (thorough) is "
             "enumerated completely and compared with an independent list-of-bools model; wider frames (to 256 bits, "
             "512 after concatenation) are explored by generated operation histories with the model compared after "
             "every step and all views (integer, bytes, pack, pack_len, contains, equality, reconstruction) at the end. "
             "Complete for the small widths, search evidence for the rest.",
        note="Trusted: the list-of-bits model in props/c05.py; exception families as documented in dali/frame.py docstrings.",
        design="4/C05"),
}

CHECKS["C04"] = dict(
    technique="exhaustive enumeration against a hand-written address-byte partition (differential with reference codec)",
    text="Thorough: every (address object, 16-bit frame) write, every device address x all 2^16 upper halves x 3 low bytes, "
         "every instance object x 2^16 surroundings, the decode partition over all 2^16 and all 2^24 frames, every "
         "(object, wrong size 1..64) refusal and every ordered pair of objects for equality are enumerated completely "
         "(54M evaluations). Quick: the same strata on a seed-dependent stride (5M). Complete over the stated domain in "
         "the thorough tier.",
    note="Trusted: the partition of the address/instance byte transcribed in props/c04.py from IEC 62386-102 7.2 / -103 7.2.",
    design="4/C04")
CHECKS["C06"] = dict(
    technique="exhaustive enumeration of (response class, bus outcome) against an oracle keyed on the response kind",
    text="Complete on every run: all response classes reachable from any command (34) x {None, 256 clean frames, 256 "
         "framing-error frames}, every named bit of every bitmap class, nine kinds of illegal constructor argument.",
    note="Trusted: the per-kind oracle in props/c06.py (yes/no, numeric, MASK, bitmap, enum, generic) written from the "
         "property statement; bit names are taken from the class under test (their order is checked, their wording is not).",
    design="4/C06")

CHECKS["C01"] = dict(
    technique="exhaustive enumeration of the frame space (round-trip oracle) plus purity differential against a "
              "pristine interpreter; Hypothesis decode/construct histories",
    text="Thorough: all 2^16 x 256 (16-bit frame, device type) pairs, all 2^24 24-bit frames, all 2^21 device/instance "
         "event frames under 8 classes of instance map, and lengths 1..64 are decoded (51M decodes) and each result must "
         "be a Command with bit-identical frame that renders as text. Purity: a fixed probe set of 7.5k inputs is "
         "fingerprinted in a fresh interpreter and must be reproduced at the end of every shard; registries named in the "
         "anchors must be unchanged; generated histories re-decode earlier inputs. Quick: stride 13 over the same strata.",
    note="Trusted: nothing beyond Python itself for the round trip; purity compares the library with itself across "
         "histories (a differential, not a reference model).",
    design="4/C01")

CHECKS["C02"] = dict(
    technique="exhaustive construct->decode round trip over the argument space of every command class, plus "
              "illegal-argument fault enumeration per argument position",
    text="Every concrete class in Command._commands (329, discovered at run time) is constructed from every legal "
         "argument tuple (thorough: complete products incl. 52 instance commands x 98 destinations x 195 instance bytes, "
         "256x256 two-byte specials, all event schemes/fields; quick: seeded sample with boundaries), decoded under its own "
         "device type / instance map and compared field by field and by str(). Illegal values (-1, first above range, 2^31, "
         "None, float, str, bytes, wrong-kind addresses, conflicting event keywords, address-object constructors) must raise.",
    note="Trusted: the abstract argument descriptions in props/c02.py; equality of address objects (C04).",
    design="4/C02")
CHECKS["C12"] = dict(
    technique="exhaustive enumeration of the event frame space against a hand-written reference event decoder; "
              "metamorphic (map vs in-frame type) and retry-vs-direct differentials",
    text="Thorough: all 2^23 frames with bit 16 clear without a map, all 2^21 device/instance frames under maps "
         "resolving to types 1, 3, 4, 0 and to nothing, every type 0..31 (+32, 77, 255) on 64 sources with retry_decode, "
         "four ways of building a map. Quick: strides 13/11 over the same strata.",
    note="Trusted: the reference decoder in props/c12.py transcribed from IEC 62386-103 Table 3, -301 Table 2, -303, -304.",
    design="4/C12")

CHECKS["C03"] = dict(
    technique="table-driven differential: hand-transcribed IEC 62386 command tables + reference integer encoder vs "
              "constructed frames, decoded names and class flags, over the complete argument product",
    text="325 table rows (323 transcribed independently of the library, 2 pinned) x every legal destination / instance "
         "byte / parameter (thorough: complete product, 3.06M cases; quick: complete for 324 rows, LightEvent sampled): "
         "constructed frame == reference encoder bit for bit, reference frame decodes to the class of that name, and "
         "sendtwice / answer kind / devicetype equal the row. A removed command is a violation; untabled library classes "
         "are listed in evidence.",
    note="Trusted: harness/ref_tables.py, a transcription from memory of IEC 62386-102/103/202/205/206/207/209/301/303/304 "
         "(the standards' text is not in the sandbox); pinned rows only detect change. One unresolved disagreement "
         "(StartAutoCalibration send-twice) is recorded in ref_tables.DISAGREEMENTS and DESIGN.md.",
    design="4/C03")
CHECKS["C08"] = dict(
    technique="model-based testing of generator sequences against a frame-level IEC 62386-102 gear model; exhaustive "
              "adversarial answer streams with a reference verdict function",
    text="QueryDeviceTypes over every subset of {0,1,6,8,253} and generated lists over 0..253; QueryGroups over all 2^16 "
         "group sets (thorough; stride 7 quick); SetGroups over a structured 2^8x2^8 subset of (current, requested) pairs x "
         "five destination kinds with exact-difference check for short/int; every adversarial answer stream of length <= 6 "
         "(quick: <= 5) over {none, error, 0, 1, 6, 7, 254, 255} with termination bound; fault cases for QueryGroups/SetGroups.",
    note="Trusted: harness/model_gear.py (frame-level transcription of 102 addressing, groups, device-type query adjacency) "
         "and the reference verdict function ref_types in props/c08.py.",
    design="4/C08")

CHECKS["C07"] = dict(
    technique="model-based property testing: Hypothesis-generated gear populations and scripted random-address streams, "
              "library sequence run against a frame-level IEC 62386-102 initialisation model, invariants over the end state",
    text="1 200 (quick) / 16 000 (thorough) generated buses of 0..70 gear with arbitrary initial addresses (duplicates), "
         "permitted subsets (None/empty/single/small/subset/all), readdress and dry-run, random draws from a 7-value pool "
         "forcing clashes/restarts, optional unit that ignores PROGRAM or stays mute on VERIFY. Oracle on the models after "
         "the run: bounded command count, all units out of initialisation, exactly min(participants, free permitted) "
         "participants addressed, addresses permitted, pairwise distinct and distinct from addresses in use, "
         "non-participants untouched, dry run changes nothing, ProgramShortAddressFailure iff a unit does not confirm. "
         "Search evidence over a huge history space, not exhaustive.",
    note="Trusted: harness/model_gear.py initialisation semantics (RANDOMISE/PROGRAM/VERIFY act while ENABLED or "
         "WITHDRAWN; COMPARE/WITHDRAW only while ENABLED), which the repository's own dali/tests/fakes.py shares; "
         "collisions are always framing errors; no 15-minute timer.",
    design="4/C07")
CHECKS["C11"] = dict(
    technique="exhaustive/boundary enumeration and Hypothesis byte strings against hand-transcribed memory-map table and "
              "reference decoders; round-trip for plain numbers/strings; image-level differential",
    text="97 declared memory values x all raw strings of width 1-2 (complete), boundary sets and generated strings for "
         "wider ones: from_list/check_raw/raw_to_value never raise and equal the reference decoder, MASK/TMASK/Invalid exactly "
         "at the reference patterns; raw_to_value(value_to_raw(x)) == x for plain numbers and strings; bank, locations, access "
         "type, width per table row; no overlap; lockable only with a lock byte; whole-image decode at the table's offsets.",
    note="Trusted: harness/ref_memory.py (97 rows transcribed from IEC 62386-102 9.10 and DiiA 251-253 from memory; nine "
         "single fields pinned to the library; five recorded disagreements where the statement is silent and both readings "
         "are accepted).",
    design="4/C11")

CHECKS["C18"] = dict(
    technique="differential testing of nine gateway drivers against hand-written reference wire encoders/decoders over "
              "the 16-bit frame space, sampled 24-bit commands, sequence-number histories and all status codes",
    text="For Tridonic HID, hasseb HID, LUBA, SCI, daliserver, ATX hat, legacy Tridonic, legacy hasseb and UniPi: every "
         "16-bit frame (thorough: all 65 536; quick: every third) and sampled 24-bit commands are sent through fake "
         "transports and the bytes compared with harness/ref_wire.py field by field (frame bits, mode/length code, "
         "send-twice flag or double write, priority, padding, checksum); 700-send sequence-number histories; unsupported "
         "lengths must be refused; every status/type code x payload of each gateway's report decodes to what the reference "
         "says. Two unrepaired findings are listed in KNOWN_FINDINGS.txt.",
    note="Trusted: harness/ref_wire.py, written from the field layouts in the drivers' docstrings/constants and knowledge of "
         "the gateways (vendor documents are not in the sandbox; ref_wire.ASSUMPTIONS lists what could not be checked "
         "independently); import stubs for usb/hid/pymodbus.client.sync. LUBA/SCI framing-error reports may surface as "
         "'no answer' (C16 states these drivers only log them).",
    design="4/C18")
CHECKS["C19"] = dict(
    technique="grammar-guided Hypothesis byte streams and deterministic sweeps fed to the real receiver state machines "
              "under several chunkings; differential against reference deframers",
    text="LUBA and SCI protocol objects receive generated streams (valid frames of every type, every length byte 0..255, "
         "bad checksums, unknown types, truncations, noise with embedded sync bytes, trailing well-formed frame) whole, "
         "byte-wise and under two random chunkings; raw-answer, confirmation, info and observed-command queues must equal "
         "the reference deframer's, no exception may escape data_received, chunking must not matter. Streams containing a "
         "checksum-valid frame malformed for its type are set aside and counted.",
    note="Trusted: the reference deframers in harness/ref_wire.py; resynchronisation rule (a dropped LUBA frame is consumed "
         "whole; SCI frames are aligned every five bytes) adopted from the driver's documented behaviour.",
    design="4/C19")

CHECKS["C14"] = dict(
    technique="exhaustive enumeration of 16-bit values through the library sequences against a frame-level DT8 Tc model; "
              "fault injection on each answer; illegal-argument enumeration",
    text="All 65 536 mirek values x {short, int, group, broadcast} for SetDT8ColourValueTc, all 4 x 65 536 limit stores, "
         "every query selector (83) x stored values (thorough: all 65 536; quick: stride 61 + boundaries) with silence / "
         "framing error injected at each of the four steps, and illegal colour temperatures / selectors that must be "
         "rejected before the first command. Oracle: DTR0 = low byte, DTR1 = high byte (DTR2 = selector) at the moment the "
         "unit executes the DT8 command, ACTIVATE follows, final registers equal the value; query returns exactly the "
         "stored value, None on MASK / missing / garbled.",
    note="Trusted: the IEC 62386-209 Tc subset of harness/model_gear.py (raw registers, device-type gating, send-twice rule).",
    design="4/C14")

CHECKS["C16"] = dict(
    technique="discrete-event simulation of the real asyncio drivers on a virtual-time loop against gateway models; "
              "Hypothesis-generated callers, outcomes, latencies and stale reports; result oracle per caller",
    text="Tridonic HID, hasseb HID, LUBA and SCI drivers run unmodified on a harness-owned virtual-time event loop; a "
         "gateway model answers their writes with reports whose delivery times are drawn inside the protocol's windows. "
         "3 000 (quick) / 60 000 (thorough) generated scenarios: 1-3 callers (single sends, sequences, manual transactions, "
         "parallel in-transaction sends), every response kind, 16/24-bit, device-type and send-twice commands, outcomes "
         "silent / value / framing error, stale answers from earlier traffic; daliserver and ATX hat against scripted "
         "sockets/serial ports. Oracle: None iff the command has no response, else the command's own response class "
         "wrapping exactly that caller's scripted outcome.",
    note="Trusted: the gateway conversation models in harness/gateways.py and gateways_serial.py (what the drivers' code "
         "expects; vendor documents are not in the sandbox); asyncio's FIFO ready queue.",
    design="4/C16")

CHECKS["C15"] = dict(
    technique="schedule exploration by discrete-event simulation of the real asyncio drivers on a virtual-time loop; "
              "history invariant over the gateway's ordered wire log",
    text="8 000 (quick) / 120 000 (thorough) generated scenarios per run for Tridonic HID, hasseb HID, LUBA and SCI: 2-4 "
         "concurrent callers (single sends, run_sequence with sleep/progress items, manual transactions) with unique frames, "
         "start times, cancellation times, scripted exceptions and gateway latencies. Oracle over the wire log: frames of one "
         "unit contiguous and in order, every device-type command directly preceded by its ENABLE DEVICE TYPE frame, every "
         "caller ends, transaction lock and gateway-level locks free, raised/cancelled sequences not left suspended, no "
         "unhandled exception in the loop.",
    note="Trusted: gateway conversation models; asyncio's FIFO ready queue (the harness places external events between "
         "settled loop states, it does not permute the ready queue).",
    design="4/C15")

CHECKS["C17"] = dict(
    category="fault_enumeration",
    technique="fault injection by discrete-event simulation on a virtual-time loop: device loss / write failure / end of "
              "file / mute gateway / caller cancellation placed at generated points of generated schedules",
    text="Three generated families per run (quick ~6 500 scenarios, thorough ~85 000): (1) HID loss: the device disappears "
         "by read error, EOF, write error or silently, before/after a write, between echo and answer, during the handshake "
         "or the reconnect wait, repeatedly, with 0-3 callers, limits None/0/1/3, exceptions on/off, optional return and "
         "flaky handshake, followed by probe sends; (2) cancel: a send cancelled at a generated await point followed by 300 "
         "sends so Tridonic sequence numbers wrap; (3) mute: LUBA/SCI gateway stops confirming or answering. Oracle: "
         "CommunicationError only for sends in flight at a loss with exceptions on, otherwise correct answers; no hang "
         "(unless the device never returns / the limit is exhausted); no lock, permit or in-flight slot left; 'disconnected' "
         "then exactly `limit` attempts at the configured spacing then 'failed'; handshake before any command after reopen; "
         "serial sends end within the documented timeouts with locks released.",
    note="Trusted: gateway models and the fake os layer (a vanished hidraw fails read/write, may return under the same "
         "path); virtual clock. After an abandoned send on LUBA/SCI a later answer may be lost (tolerated and counted: "
         "their confirmations carry no identity); on hasseb the cancelled command is never a query (documented "
         "protocol limitation).",
    design="4/C17")

CHECKS["C20"] = dict(
    technique="model-based testing: generated timed bus histories replayed into the real drivers on a virtual-time loop; "
              "callback streams compared with a reference watcher written from the property statement",
    text="2 400 (quick) / 64 000 (thorough) generated histories of up to 8 foreign bus transactions (plain, query + "
         "answer/silence/framing error, config sent twice/once/interrupted/answered, ENABLE DEVICE TYPE + extended command, "
         "24-bit commands, events with and without instance map, unknown frames, stray backward frames) with gaps <= 0.1 s or "
         ">= 0.3 s, interleaved own sends and 0-3 subscribers joining/leaving. Tridonic: every subscriber's callback stream "
         "(command, response, error flag) must equal the reference watcher's output restricted to its subscription spans. "
         "LUBA/SCI: every child queue receives each observed forward frame once, in order, decoded in the device-type "
         "context of the immediately preceding ENABLE DEVICE TYPE. hasseb: own commands reported once each.",
    note="Trusted: the reference watcher ref_watch in props/c20.py; harness/ref_wire.py report decoders; decoding itself is "
         "delegated to dali.command.from_frame with the expected context (C01/C03 judge decoding).",
    design="4/C20")

CHECKS["C09"] = dict(
    technique="model-based testing of the memory read sequences against frame-level IEC 62386-102/-103 memory models "
              "(write-enable state, DTR0 auto-increment, lock/latch byte) with fault injection at every read index",
    text="Every declared memory value (99 shipped + 8 declared by the check through the public mechanism with scattered "
         "locations) and every bank object x gear / control-device / int addressing x images (random, FF, 00, ramp, "
         "default) x last accessible location 0..254 x unimplemented holes x latch on/off x initial lock byte x drifting "
         "live memory x silence/framing error at each read. Oracle: value = reference decode (harness/ref_memory.py) of the "
         "bytes at the declared locations; MemoryLocationNotImplemented exactly when a location is missing; ResponseError "
         "on a garbled read; read_all keys and values as the statement says, from the latched snapshot; memory unchanged "
         "and bank not left latched afterwards. Complete over value x last-location and value x single-hole; sampled otherwise.",
    note="Trusted: harness/model_gear.py MemBank + harness/model_devmem.py (102 9.10 semantics, shared by the repository's "
         "own fakes), harness/ref_memory.py.",
    design="4/C09")
CHECKS["C10"] = dict(
    technique="model-based testing of the memory write sequences with one injected fault of each kind at every step",
    text="34 writable and 73 read-only value classes x data patterns (random, boundary, MASK/TMASK, numbers, strings, short "
         "and wrong lengths) x initial lock byte x addressing x unit variants (standard, non-standard unlock value, shorter "
         "bank, DTR0 not advancing) x fault (answer NO, wrong echo, framing error) at every write index and at the DTR0 check "
         "x ignore_feedback. Oracle: refusal before any command for read-only values / wrong length; success means exactly "
         "those bytes at exactly those locations, nothing else changed, lockable bank re-locked; any fault raises a "
         "documented memory/response exception.",
    note="Trusted: the same memory models and ref_memory.is_writable / needs_unlock.",
    design="4/C10")
CHECKS["C13"] = dict(
    technique="model-based testing of the control-device sequences against a frame-level IEC 62386-103 device/instance "
              "model; enumeration of small spaces, Hypothesis populations, fault at every query",
    text="query_input_value for every (resolution 1..12, value) and boundary values to 32 bits with arbitrary filler bits; "
         "event filters (library enums, generated 9..24-flag enums, ints) x flag combinations x stale DTR contents with "
         "state and read-back oracles; schemes; autodiscover over populations of 0..64 devices with status bits, 0..32 "
         "instances, enabled flags, types, address selectors, quiescent bracketing; silence/framing error at every query.",
    note="Trusted: harness/model_device.py (opcodes cross-checked with harness/ref_tables.py).",
    design="4/C13")

NOT_BUILT_REASON = "check not built yet in this round (planned, see DESIGN.md section 4); not claimed until it is registered"


# What later rounds added to each check (state carried between calls: caches, aliasing, import order, several
# objects or sequences alive at once, exotic argument types, clocks); appended to the description above.
ADDED = {
    "C01": " Also: import/declaration histories in fresh interpreters (decode before importing, leaf modules only, drivers "
           "only, constructions before the first decode) must reproduce the full-import fingerprints; every decode is "
           "repeated right after ~500 other operations incl. caller-edited results; pairs of results kept alive; a "
           "growing instance map against a fresh map with equal contents.",
    "C02": " Illegal pools hold both sides of every range, neighbouring powers of two, the protocol's special bytes, "
           "numeric look-alikes (float/Fraction/Decimal/complex equal to an int just used legally) and address objects "
           "renumbered out of range; coexisting objects of one class, and objects whose destination object is renumbered "
           "afterwards, keep their own frames; strings are run-time (non-interned) objects.",
    "C04": " Object lifetime: renumbered objects written and read back, decode results edited by the caller, frames given "
           "as ForwardFrame / plain Frame / concatenation.",
    "C05": " Histories include +=, backward-frame constructors, every byte-sequence spelling of initial data (length, "
           "container, one-shot iterators) and the forward-frame length classes.",
    "C06": " Also (command, answer 255) pinned to MASK / plain number for the commands the standard defines so, every "
           "text rendering (repr, format, containers), caller-edited status lists, views after the held frame changed, "
           "derived accessors against the documented meaning of the byte.",
    "C07": " The permitted set is handed over as list/tuple/set/iterator/generator/range/dict view; two runs interleaved "
           "on separate buses.",
    "C08": " Sequences interleaved on separate buses; caller-edited results; device-type lists of every length.",
    "C09": " 2-3 sequences of one bank object interleaved on separate buses under generated schedules; histories of "
           "latch/unlatch/read operations across units.",
    "C10": " Interleaved write sequences on separate units.",
    "C11": " Well-formed multi-byte text in every string position; bank images given as list/tuple/bytes/bytearray; "
           "declaration/import histories in fresh interpreters.",
    "C12": " One map object growing, corrected, cleared and re-filled; preset dicts shared between mappers; parked and "
           "caller-edited events; the devicetype argument must not matter for 24-bit frames.",
    "C13": " Interleaved sequences; discovery into pre-loaded / cleared mappers; address sets as any iterable; widths of "
           "other enums asked first.",
    "C14": " Interleaved sequences on separate buses; repeated equal calls with the unit changed in between; look-alike "
           "arguments after legal use.",
    "C15": " Also sequences whose cleanup raises, callers started before connect(), several serial frames in one read.",
    "C16": " Also callers that edit the answers they receive, hasseb idle reports, nothing may be handed to sleep/progress "
           "items, several serial frames in one read.",
    "C17": " Also device paths given as glob patterns (node absent, node renamed), silence beginning inside a packet or "
           "between the two confirmations of a send-twice command, follow-up queries after a cancelled send.",
    "C18": " UniPi on every bus with wrapping counters; legacy drivers' other packet-producing calls interleaved with sends; "
           "every status behind a damaged packet.",
    "C19": " A harness clock advanced between reads, streams of up to 150 repeated frames, several receivers fed "
           "alternately.",
    "C20": " Also the gateway lost and back mid-history (with traffic during the new handshake), subscribers whose callback "
           "raises, repeats of another frame length, an observed serial frame split over two reads with an own send between.",
}
for _k, _v in ADDED.items():
    if _k in CHECKS:
        CHECKS[_k]["text"] = CHECKS[_k]["text"] + _v

# what seed rounds 6-9 and the generated-mutant sweeps added (DESIGN.md 8.10-8.14)
ADDED2 = {
    "C01": " Sparse instance maps over all event frames, positional / Command.from_frame call styles, reused frame "
           "buffers, the input frame must not be aliased by the result, commands without a device type decode the same "
           "under every devicetype.",
    "C02": " Surplus positional/keyword arguments, python -O runs, bool/IntEnum/int-subclass arguments, integer "
           "destinations not shared between commands, preset maps.",
    "C03": " (C13 also clears the table as a scan starts.)",
    "C04": " Label/renumbering subclasses and other-length-first slices in spawned interpreters; compare, renumber, "
           "compare again; read-only uses (hash, dict key, repr, pack) before a write; the kind-less public address "
           "classes are refused by every frame size.",
    "C05": " Reflected add / sum(), look-alike indices, values without a truth value, indices far beyond any frame "
           "(2**63..10**30), assignment to every public view that has a setter.",
    "C06": " Response subclasses declared before/after use (spawned interpreters), falsy frames, marker look-alikes, "
           "assignment to raw_value, rendering with format specifications.",
    "C07": " Every address once as the one already in use; faulty units combined with clashes; positional calls.",
    "C09": " Edge bytes at every byte position of every multi-byte value; the bank's helper predicates judged; factory "
           "images padded where the library's defaults are short.",
    "C10": " write_raw with data that is no byte string; bad values / bad raw lengths.",
    "C11": " Raw buffers handed out or in are edited by the caller; declared limits compared signed/unsigned.",
    "C12": " Retry orders, ByRule-style mapper subclasses, read-only .mapping views, another empty map for the retry.",
    "C13": " connect(scan_dev_inst=True) asks all 64 addresses inside the quiescent bracket; event-filter enum members "
           "pinned; the table cleared as the scan starts.",
    "C15": " power_supply() items inside transactions.",
    "C16": " LUBA one-byte error responses and both garbled-answer reports (info 63 / 62, with or without a byte) while "
           "exchanges run; two driver objects on one loop (harness/twin.py); two threads on one synchronous ATX driver.",
    "C17": " A write failing at the n-th write; timeouts that coincide with the next report; mute/unmute with "
           "follow-up queries; connect() by the application after 'failed' and during a retry wait (one retry chain "
           "per outage, attempts exactly one interval apart); callers given up during an outage; no other caller's "
           "frame inside a sequence/transaction caller's span on a connection; an in-flight send must fail when "
           "exceptions were asked for.",
    "C18": " Every LUBA error/unknown event info with 0-2 data bytes; verdicts of the real-time rigs must reproduce.",
    "C20": " The application blocking the loop across a watcher deadline; frames between ENABLE DEVICE TYPE and the "
           "extended command; repeat replaced by an intact/garbled backward frame and the same frame again; hasseb "
           "reports of own traffic carry the caller's response and no error flag; traffic queued during the "
           "reconnection handshake (found and fixed a defect, /repo 0891db8).",
}
for _k, _v in ADDED2.items():
    if _k in CHECKS:
        CHECKS[_k]["text"] = CHECKS[_k]["text"] + _v

# what seed rounds 10-12 added (DESIGN.md 8.15-8.17): the public surface no earlier seed had touched
ADDED3 = {
    "C02": " Numbers handed over as IntEnum members / int-subclass instances; copy, deepcopy and pickle round trips of the "
           "constructed objects.",
    "C04": " The legacy names (Short, Group, Broadcast, BroadcastUnaddressed); clones of address and instance objects.",
    "C05": " pack_len at every length the value fits in; the caller edits the list as_byte_sequence returned; clones of "
           "frames are equal and independent.",
    "C06": " Reading every public attribute leaves response and caller's frame unchanged; missing vs garbled told apart by "
           "the exception class; enum members / falsy values are no frames; clones of responses.",
    "C07": " Units whose stored address cannot be changed; the caller's collection of permitted addresses is not consumed.",
    "C09": " A generated family of 192 user declarations per seed (harness/ref_memory.family) through the read judges.",
    "C10": " The same family through the write judges; write_raw options by position.",
    "C11": " The same family decoded, first-use orders in spawned interpreters; same-named classes in the declaration rules.",
    "C12": " Application subclasses of the event classes (spawned interpreters); retry follows the frame, not a renumbered "
           "address object; initial= tables with a default hook.",
    "C13": " connect(scan_dev_inst=True) on a populated bus records into the table the program handed over.",
    "C15": " Sequences yielding their own ENABLE DEVICE TYPE; commands of an application-defined device type; one scenario "
           "in three with the library's logging at its most verbose level (harness/verbose.py; also C16, C17, C20).",
    "C16": " Two threads on one daliserver client; ATX histories with foreign lines on one driver object; an orphaned answer "
           "during a no-answer exchange; LUBA events laid out as the configured event filter prescribes.",
    "C17": " exceptions= said at the call; other status listeners (one-shot, failing) before the monitor; node back but "
           "writes dead; a second connect() on a serial driver after a first that was cut short.",
    "C18": " Legacy hasseb send() over report histories; sequence numbers after a send its caller gave up on.",
    "C19": " Receivers attached to a transport exposing the serial port; every LUBA command code with a wrong checksum; "
           "every stream also with verbose library logging.",
    "C20": " Subscribers that unregister themselves in their callback; arbitrary interval fields in Tridonic reports.",
}
ADDED5 = {
    # runner-level dimensions (DESIGN.md 8.20): they apply to every check
    "*": " Runner: warnings from the library are errors; every shard starts with the library's logging at its most verbose "
         "level.",
    "C01": " The whole search runs once more under python -OO.",
    "C03": " The whole search runs once more under python -OO.",
    "C04": " Clones through every pickle protocol; every frame form for writes; the whole search once more under python -OO.",
    "C05": " Iteration (also of a frame being written); non-integer initial data; pack_len by name; the whole search once "
           "more under python -OO.",
    "C06": " MASK is no marker for a garbled answer; the whole search once more under python -OO.",
    "C10": " Empty short writes to read-only values; strings with white space.",
    "C11": " TemperatureValue subclasses with their own offset; a decoded value never equals a flag.",
    "C12": " Two serial drivers made without a table do not share one.",
    "C13": " Device and instance in mixed int/object forms.",
    "C15": " A stray byte on the idle LUBA line; sequences sleeping a second or longer; SCI ERROR status instead of the "
           "confirmation.",
    "C16": " A 24-bit command on hasseb is refused at once (watchdog); daliserver connection resets; ATX read timeouts; each "
           "line's bus_traffic listener hears its own line (two drivers, reports in one loop pass).",
    "C17": " Power-supply packets as the failing write; no second open while connected; loss family at 1800 examples per "
           "shard plus regression replays of earlier catches.",
    "C19": " An abandoned wait for a backward frame; the whole search once more under python -OO.",
    "C20": " Hasseb queries answered with a framing error; 900 examples per shard plus regression replays; events of the "
           "instances the table names; the serial table filled in place.",
}
for _k, _v in ADDED5.items():
    for _kk in (list(CHECKS) if _k == "*" else [_k]):
        if _kk in CHECKS:
            CHECKS[_kk]["text"] = CHECKS[_kk]["text"] + _v
ADDED4 = {
    "C01": " Decoding from other threads, re-entered decodes, warnings as errors, frames of application ForwardFrame "
           "subclasses, package-only import histories.",
    "C03": " Flags after generic objects were asked first; every 24-bit row under maps; yes/no options as non-bools; each "
           "class's own decoder.",
    "C07": " Gear that needs the documented time after RANDOMISE.",
    "C08": " Documented parameter names as keywords.",
    "C13": " A caller that sends as soon as the connection is up, during the connect-time scan.",
    "C18": " Tridonic bus-status reports that end nothing, then the answer; LUBA gateway model honours mode settings.",
}
for _k, _v in ADDED4.items():
    if _k in CHECKS:
        CHECKS[_k]["text"] = CHECKS[_k]["text"] + _v
for _k, _v in ADDED3.items():
    if _k in CHECKS:
        CHECKS[_k]["text"] = CHECKS[_k]["text"] + _v


def main():
    checks = []
    for pid in ALL:
        if pid not in CHECKS:
            continue
        c = CHECKS[pid]
        checks.append({
            "property_id": pid,
            "quick_cmd": "./check %s --tier quick" % pid,
            "thorough_cmd": "./check %s --tier thorough" % pid,
            "evidence_file": "/verif/evidence/%s.json" % pid,
            "replay_cmd_template": "./check %s --replay {path}" % pid,
            "engine": "pbt-runner",
            "level_claimed": {"category": c.get("category", "exploration"), "text": c["text"],
                              "design_ref": "DESIGN.md section " + c["design"]},
            "level_note": c["note"],
            "technique": c["technique"],
        })
    man = {
        "version": 1,
        "setup_cmd": "sh tools/setup.sh",
        "hooks": {
            "guard": "PYTHON_DALI_VERIF",
            "enable": "no hooks are needed: the harness patches module attributes from outside (see DESIGN.md section 1)",
            "baseline_off_cmd": "cd /repo && /venv/bin/python -m pytest -ra -q -p no:cacheprovider --timeout=900 "
                                "--continue-on-collection-errors",
            "source_commits": [],
            "add_only": True,
        },
        "engines": [{
            "name": "pbt-runner",
            "path": "harness/runner.py",
            "serves_properties": [c["property_id"] for c in checks],
            "kind_free_text": "property-based testing: exhaustive enumeration of finite spaces on 16 processes, "
                              "Hypothesis generators (seeded by VERIF_SEED, database-free) for large spaces and "
                              "histories, independent reference models as oracles, root-cause bucketing, replay files",
        }],
        "checks": checks,
        "notes": "Each check imports dali from /repo's working tree in a fresh process (pure Python: no build step). "
                 "Confirmed defects are repaired by 'fix:' commits in /repo and listed in KNOWN_FINDINGS.txt.",
        "not_applicable": [{"property_id": p, "reason": NOT_BUILT_REASON} for p in ALL if p not in CHECKS],
    }
    with open(os.path.join(VERIF, "MANIFEST.json"), "w") as f:
        json.dump(man, f, indent=1)
        f.write("\n")
    try:
        import jsonschema
        jsonschema.validate(man, json.load(open("/root/.vp/MANIFEST.schema.json")))
        print("MANIFEST.json valid; %d checks" % len(checks))
    except ImportError:
        print("MANIFEST.json written (jsonschema not available here); %d checks" % len(checks))


if __name__ == "__main__":
    main()
