#!/venv/bin/python
"""Confirm a seeded change produced by an independent sub-agent, then run our checks against it.

  tools/seed_verify.py C08 [--name C08-a] [--checks C08,C07] [--tier quick]

Input: /tmp/seed-<ID>/SEED/{patch.diff,demo.py,meta.json}
Steps (all in a fresh scratch worktree of /repo under /tmp, removed afterwards):
  1. patch applies; the repository's test suite still passes with it (110 passed)
  2. the demonstration exits 1 with the patch and 0 without it
  3. our check(s) for the property are run against a scratch copy with the patch (tools/mut.py --patch)
The change is kept as /verif/seeded/<name>/ (patch.diff, demo.py, meta.json with what was run and observed).
Nothing is ever applied to /repo itself.
"""
import json
import os
import shutil
import subprocess
import sys

VERIF = os.path.dirname(os.path.dirname(os.path.abspath(__file__)))


def sh(cmd, cwd=None, timeout=1800):
    r = subprocess.run(cmd, shell=True, cwd=cwd, capture_output=True, text=True, timeout=timeout)
    return r.returncode, (r.stdout + r.stderr)


def main():
    args = sys.argv[1:]
    pid = args[0]
    name = pid
    checks = [pid]
    tier = "quick"
    src = "/tmp/seed-%s/SEED" % pid
    i = 1
    while i < len(args):
        if args[i] == "--name":
            name = args[i + 1]
        elif args[i] == "--checks":
            checks = args[i + 1].split(",")
        elif args[i] == "--tier":
            tier = args[i + 1]
        elif args[i] == "--src":
            src = args[i + 1]
        i += 2
    wt = "/tmp/sv-%s" % name
    sh("git -C /repo worktree remove --force %s" % wt)
    rc, out = sh("git -C /repo worktree add -q --detach %s HEAD" % wt)
    assert rc == 0, out
    ran = []
    try:
        meta = json.load(open(os.path.join(src, "meta.json")))
        rc, out = sh("git apply %s/patch.diff" % src, cwd=wt)
        ran.append(("git apply patch.diff", rc))
        assert rc == 0, "patch does not apply: " + out
        rc, out = sh("/venv/bin/python -m pytest -q -p no:cacheprovider dali/tests", cwd=wt)
        tail = out.strip().splitlines()[-1] if out.strip() else ""
        ran.append(("pytest dali/tests with patch", tail))
        tests_ok = "110 passed" in tail
        os.makedirs(os.path.join(wt, "SEED", "x"), exist_ok=True)
        shutil.copy(os.path.join(src, "demo.py"), os.path.join(wt, "SEED", "x", "demo.py"))
        demo = "PYTHONPATH=%s /venv/bin/python SEED/x/demo.py" % wt      # dali must resolve to the scratch worktree
        rc1, out1 = sh(demo, cwd=wt, timeout=300)
        ran.append(("demo with patch", rc1))
        sh("git apply -R %s/patch.diff" % src, cwd=wt)
        rc0, out0 = sh(demo, cwd=wt, timeout=300)
        ran.append(("demo without patch", rc0))
        confirmed = tests_ok and rc1 == 1 and rc0 == 0
        print("%s: tests with patch: %s | demo with patch exit %d | demo without patch exit %d -> %s"
              % (name, tail, rc1, rc0, "CONFIRMED" if confirmed else "NOT CONFIRMED"))
        if not confirmed:
            print(out1[-800:])
            print(out0[-800:])
        results = {}
        for c in checks:
            rc, out = sh("%s/tools/mut.py --tier %s --patch %s/patch.diff -- %s" % (VERIF, tier, src, c), cwd=VERIF, timeout=3600)
            lines = [l for l in out.splitlines() if "exit=" in l or "sig=" in l]
            results[c] = {"caught": rc == 0, "lines": [l.strip()[:300] for l in lines[:6]]}
            print("   check %s (%s tier): %s" % (c, tier, "CAUGHT" if rc == 0 else "MISSED"))
            for l in lines[1:4]:
                print("      " + l.strip()[:220])
        dst = os.path.join(VERIF, "seeded", name)
        os.makedirs(dst, exist_ok=True)
        shutil.copy(os.path.join(src, "patch.diff"), os.path.join(dst, "patch.diff"))
        shutil.copy(os.path.join(src, "demo.py"), os.path.join(dst, "demo.py"))
        meta_out = {
            "property": pid,
            "summary": meta.get("summary"),
            "needs_to_manifest": meta.get("needs_to_manifest"),
            "files_changed": meta.get("files_changed"),
            "source": "independent sub-agent given only the property text and a scratch worktree",
            "confirmed_by_lead": confirmed,
            "what_was_run": [{"step": a, "result": b} for a, b in ran],
            "checks_run_against_it": results,
        }
        old = os.path.join(dst, "meta.json")
        if os.path.exists(old):
            prev = json.load(open(old))
            prev_checks = prev.get("checks_run_against_it", {})
            for k, v in prev_checks.items():
                meta_out["checks_run_against_it"].setdefault(k + " (earlier run)", v)
        json.dump(meta_out, open(old, "w"), indent=1)
    finally:
        sh("git -C /repo worktree remove --force %s" % wt)
        shutil.rmtree(wt, ignore_errors=True)
        shutil.rmtree(os.path.join(VERIF, "replays", "found"), ignore_errors=True)


if __name__ == "__main__":
    main()
