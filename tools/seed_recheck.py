#!/venv/bin/python
"""Re-run checks against stored seeded changes (after the checks were strengthened) and record the outcome.

  tools/seed_recheck.py [-j N] [--tier quick] NAME[:CHECK[,CHECK]] ...      (NAME = directory under seeded/)
  tools/seed_recheck.py [-j N] --all                                         every seed, with the checks recorded as
                                                                             catching it (else the property's own)

Each run applies seeded/<NAME>/patch.diff to a scratch copy of /repo (tools/mut.py) - /repo itself is never touched.
The result is added to seeded/<NAME>/meta.json under "rechecks" and printed as one line.
"""
import json
import os
import subprocess
import sys
import time
from concurrent.futures import ThreadPoolExecutor

VERIF = os.path.dirname(os.path.dirname(os.path.abspath(__file__)))


def one(job):
    name, check, tier = job
    patch = os.path.join(VERIF, "seeded", name, "patch.diff")
    t0 = time.time()
    r = subprocess.run([os.path.join(VERIF, "tools", "mut.py"), "--tier", tier, "--patch", patch, "--", check],
                       cwd=VERIF, capture_output=True, text=True)
    out = r.stdout + r.stderr
    lines = [l.strip()[:300] for l in out.splitlines() if "sig=" in l][:4]
    verdict = "CAUGHT" if r.returncode == 0 else ("MISSED" if "MISSED" in out else "HARNESS-ERROR")
    return name, check, verdict, lines, round(time.time() - t0, 1)


def default_checks(name, meta):
    caught = [k.split(" ")[0] for k, v in meta.get("checks_run_against_it", {}).items() if v.get("caught")]
    caught += [r["check"] for r in meta.get("rechecks", []) if r["verdict"] == "CAUGHT"]
    return sorted(set(caught)) or [meta.get("property", name[:3])]


def main():
    args = sys.argv[1:]
    par, tier, jobs = 3, "quick", []
    allseeds = False
    i = 0
    while i < len(args):
        if args[i] == "-j":
            par = int(args[i + 1]); i += 2
        elif args[i] == "--tier":
            tier = args[i + 1]; i += 2
        elif args[i] == "--all":
            allseeds = True; i += 1
        else:
            name, _, checks = args[i].partition(":")
            meta = json.load(open(os.path.join(VERIF, "seeded", name, "meta.json")))
            for c in (checks.split(",") if checks else default_checks(name, meta)):
                jobs.append((name, c, tier))
            i += 1
    if allseeds:
        for name in sorted(os.listdir(os.path.join(VERIF, "seeded"))):
            mp = os.path.join(VERIF, "seeded", name, "meta.json")
            if os.path.exists(mp):
                for c in default_checks(name, json.load(open(mp))):
                    jobs.append((name, c, tier))
    with ThreadPoolExecutor(par) as ex:
        for name, check, verdict, lines, wall in ex.map(one, jobs):
            mp = os.path.join(VERIF, "seeded", name, "meta.json")
            meta = json.load(open(mp))
            meta.setdefault("rechecks", [])
            meta["rechecks"] = [r for r in meta["rechecks"] if r["check"] != check] + [
                {"check": check, "tier": tier, "verdict": verdict, "lines": lines}]
            with open(mp + ".tmp", "w") as fh:
                json.dump(meta, fh, indent=1)
            os.replace(mp + ".tmp", mp)
            print("%-10s %-4s %-13s %5.1fs  %s" % (name, check, verdict, wall, (lines[0][:150] if lines else "")), flush=True)
    subprocess.run(["rm", "-rf", os.path.join(VERIF, "replays", "found")])


if __name__ == "__main__":
    main()
